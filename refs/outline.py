"""R-outline: reference nesting model for headings, * / # lists and horizontal
rules (C02), written from the property statement.

An outline is a list of lines:
  ("h", level, sid)            == Ssid ==
  ("l", marker, sid, inline)   marker + " Ssid" (+ inline filler)
  ("hr",)                      ----
  ("f", kind, sid)             a filler block from the catalogue (sid may be
                               None for fillers that leave no text)
Expected for every sentinel: (tuple of enclosing (level, heading sid)),
(tuple of enclosing (list prefix, item prefix))."""

FILLERS = {
    # kind: (template text with {S} for the sentinel word, closes_lists,
    #        has_sentinel)
    "para": ("{S} plain text", True, True),
    "bold": ("'''{S}''' and ''it''", True, True),
    "link": ("[[{S}|label]] trail", True, True),
    "template": ("{{{{tpl|{S}|k=v}}}}", True, True),
    "pfn": ("{{{{#if:x|{S}}}}}", True, True),
    "span": ('<span class="c">{S}</span>', True, True),
    "div": ("<div>\n{S}\n</div>", True, True),
    "table": ("{{|\n|-\n| {S} || c\n|}}", True, True),
    "pre": ("<pre>{S}\n== not heading ==\n* not list</pre>", True, True),
    "extlink": ("[http://x.org {S}]", True, True),
    "nowiki": ("<nowiki>{S} == * </nowiki>", True, True),
    # constructs nested inside the arguments of other constructs
    "nested-link-in-template": ("{{{{tpl|see [[{S}|label]] and {{{{u}}}}}}}}",
                                True, True),
    "nested-template-in-link": ("[[target|{{{{t|{S}}}}} text]]", True, True),
    "nested-template-in-template": ("{{{{a|{{{{b|{S}}}}}|k={{{{c}}}}}}}}", True,
                                    True),
    "blank": ("", True, False),
    "comment": ("<!-- c -->", False, False),  # line vanishes entirely
    "magic": ("__NOTOC__", True, False),
}
INLINE = {
    None: "",
    "bold": " '''{S}'''",
    "link": " [[{S}]]",
    "template": " {{{{t|{S}}}}}",
    "span": " <span>{S}</span>",
    "italic": " ''{S}''",
    "nested": " {{{{t|[[{S}]]}}}}",
}


def word(sid):
    return f"S{sid}x"


def render(outline):
    lines = []
    for ln in outline:
        if ln[0] == "h":
            eq = "=" * ln[1]
            lines.append(f"{eq} {word(ln[2])} {eq}")
        elif ln[0] == "l":
            s = f"{ln[1]} {word(ln[2])}"
            if ln[3] is not None:
                s += INLINE[ln[3][0]].format(S=word(ln[3][1]))
            lines.append(s)
        elif ln[0] == "hr":
            lines.append("----")
        else:
            tmpl = FILLERS[ln[1]][0]
            lines.append(tmpl.format(S=word(ln[2]) if ln[2] is not None else ""))
    return "\n".join(lines) + "\n"


def model(outline):
    """Returns (sentinels, headings, items, hrs):
    sentinels: {sid: (sections, lists)}
    headings:  [(level, sid, parent sections)] in order
    items:     [(marker, sid, sections, enclosing lists)] in order
    hrs:       [sections] in order"""
    sections = []   # open (level, sid)
    lists = []      # open item markers
    sent = {}
    heads, items, hrs = [], [], []

    def lists_chain():
        return tuple((m, m) for m in lists)

    for ln in outline:
        k = ln[0]
        if k == "h":
            level, sid = ln[1], ln[2]
            lists.clear()
            while sections and sections[-1][0] >= level:
                sections.pop()
            heads.append((level, sid, tuple(sections)))
            sections.append((level, sid))
            sent[sid] = (tuple(sections), ())
        elif k == "l":
            m, sid = ln[1], ln[2]
            while lists and not (len(lists[-1]) < len(m)
                                 and m.startswith(lists[-1])):
                lists.pop()
            enclosing = lists_chain()
            lists.append(m)
            items.append((m, sid, tuple(sections), enclosing))
            sent[sid] = (tuple(sections), lists_chain())
            if ln[3] is not None:
                sent[ln[3][1]] = (tuple(sections), lists_chain())
        elif k == "hr":
            lists.clear()
            while sections and sections[-1][0] > 2:
                sections.pop()
            hrs.append(tuple(sections))
        else:
            kind, sid = ln[1], ln[2]
            _, closes, has = FILLERS[kind]
            if closes:
                lists.clear()
            if has and sid is not None:
                sent[sid] = (tuple(sections), ())
    return sent, heads, items, hrs


def same_list_groups(outline):
    """For consecutive list lines: which items must share one LIST node.
    Returns a list of group ids parallel to the list lines: equal ids = same
    LIST node (equal markers continue the same list)."""
    groups = []
    open_items = []  # (marker, group id)
    gid = 0
    for ln in outline:
        if ln[0] == "l":
            m = ln[1]
            last_popped = None
            while open_items and not (len(open_items[-1][0]) < len(m)
                                      and m.startswith(open_items[-1][0])):
                last_popped = open_items.pop()
            if last_popped is not None and last_popped[0] == m:
                g = last_popped[1]
            else:
                gid += 1
                g = gid
            open_items.append((m, g))
            groups.append(g)
        elif ln[0] == "f" and not FILLERS[ln[1]][1]:
            continue
        else:
            open_items = []
    return groups
