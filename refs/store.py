"""R-store: reference model of the page store (C10), written from the property
statement.  A dict keyed (namespace id, stored title) holding the last written
record; a spelling resolver; one-hop redirects; committed snapshot."""

import copy
import re


def includable(text):
    """R-include for the simple wrappers used by the C10/C12 generators:
    comments removed, noinclude spans removed (unclosed: to the end), only
    onlyinclude spans kept when present, includeonly tags unwrapped."""
    text = re.sub(r"(?s)<!--.*?-->", "", text)
    out, pos = [], 0
    low = text.lower()
    while True:
        i = low.find("<noinclude>", pos)
        if i < 0:
            out.append(text[pos:])
            break
        out.append(text[pos:i])
        j = low.find("</noinclude>", i)
        if j < 0:
            break
        pos = j + len("</noinclude>")
    text = "".join(out)
    text = re.sub(r"(?s)<!--.*", "", text)
    low = text.lower()
    spans, pos = [], 0
    while True:
        i = low.find("<onlyinclude>", pos)
        if i < 0:
            break
        j = low.find("</onlyinclude>", i)
        if j < 0:
            break
        spans.append(text[i + len("<onlyinclude>"):j])
        pos = j + len("</onlyinclude>")
    if spans:
        text = "".join(spans)
    for tag in ("<includeonly>", "</includeonly>"):
        text = re.sub(re.escape(tag), "", text, flags=re.I)
    return text


class NS:
    """Namespace table taken from the language data (id -> local name,
    aliases, canonical key)."""

    def __init__(self, namespace_data):
        self.by_id = {}
        for key, d in namespace_data.items():
            self.by_id[d["id"]] = {
                "name": d["name"], "aliases": list(d["aliases"]), "key": key,
            }
        self.template_id = namespace_data["Template"]["id"]

    def prefix(self, ns):
        return self.by_id[ns]["name"] + ":"

    def all_prefixes(self, ns):
        d = self.by_id[ns]
        return [d["name"]] + d["aliases"] + [d["key"]]


class Store:
    def __init__(self, ns: NS):
        self.ns = ns
        self.work = {}
        self.committed = {}

    # ---- writes
    def stored_title(self, title, ns):
        if ns:
            p = self.ns.prefix(ns)
            if not title.startswith(p):
                title = p + title
        if title.startswith("Main:"):
            title = title[5:]
        return title

    def add(self, title, ns, body=None, redirect_to=None, model="wikitext"):
        t = self.stored_title(title, ns)
        if ns == self.ns.template_id and redirect_to is None:
            body = includable(body)
        self.work[(ns, t)] = {
            "title": t, "namespace_id": ns, "body": body,
            "redirect_to": redirect_to, "model": model or "wikitext",
        }

    def commit(self):
        self.committed = copy.deepcopy(self.work)

    # ---- reads
    def candidates(self, spelling, ns):
        """Stored titles a spelling may denote, in priority order."""
        t = spelling.replace("_", " ")
        if t.startswith("Main:"):
            t = t[5:]
        if not t:
            return []
        if ns is None or ns == 0:
            return [t]
        p = self.ns.prefix(ns)
        if t.startswith(p):
            base = t[len(p):]
        else:
            base = t
            for pre in self.ns.all_prefixes(ns):
                if t.lower().startswith(pre.lower() + ":"):
                    base = t[len(pre) + 1:]
                    break
        exact = p + base
        upper = p + base[:1].upper() + base[1:]
        return [exact] if upper == exact else [exact, upper]

    def lookup(self, spelling, ns, no_redirect=False, table=None):
        table = self.work if table is None else table
        for t in self.candidates(spelling, ns):
            for (n, title), rec in table.items():
                if title != t:
                    continue
                if ns is not None and n != ns:
                    continue
                if no_redirect and rec["redirect_to"] is not None:
                    continue
                return rec
        return None

    def resolve(self, spelling, ns, table=None):
        rec = self.lookup(spelling, ns, table=table)
        if rec is None:
            return None
        if rec["redirect_to"] is not None:
            return self.lookup(rec["redirect_to"], ns, no_redirect=True,
                               table=table)
        return rec

    def body(self, spelling, ns, table=None):
        rec = self.resolve(spelling, ns, table=table)
        return None if rec is None else rec["body"]
