"""R-transclude: reference interpreter for the expansion AST of gens/exp.py,
written from the MediaWiki transclusion rules named in the property
statements (C04, C05, C08, C13, C16).  Shares no code with the package.

Rules: arguments are evaluated in the caller's frame before the body;
positional values verbatim, named keys and values trimmed; positive integer
names become integer keys; later duplicates win; {{{k}}} -> value, else the
evaluated default, else the literal; missing template -> [[:Template:name]];
#if / #ifeq / #switch lazy with trimmed results; a template or parser
function result starting with * # : ; {| gets a newline prepended."""

WS = " \t\n\r"
NOWIKI_MAP = {
    "=": "&equals;", "<": "&lt;", ">": "&gt;", "*": "&ast;", "#": "&num;",
    ":": "&colon;", "!": "&excl;", "|": "&vert;", "[": "&lsqb;",
    "]": "&rsqb;", "{": "&lbrace;", "}": "&rbrace;", '"': "&quot;",
    "'": "&apos;", "_": "&#95;",
}


def trim(s):
    return s.strip(WS)


import re as _re

_NUMERIC = _re.compile(r"^[+-]?(\d+\.?\d*|\.\d+)([eE][+-]?\d+)?$")


NW_OPEN, NW_CLOSE = "\ue000", "\ue001"
_NW_RE = _re.compile(NW_OPEN + r"(\d+)" + NW_CLOSE)


def cmp_eq(a, b):
    """#ifeq / #switch comparison.  MediaWiki compares numerically when both
    operands are numbers; operands that are numerically equal but textually
    different are outside the domain of this reference."""
    if NW_OPEN in a or NW_OPEN in b:
        raise OutOfDomain("nowiki in comparison")
    if a == b:
        return True
    if _NUMERIC.match(a) and _NUMERIC.match(b):
        try:
            if float(a) == float(b):
                raise OutOfDomain("numeric comparison")
        except ValueError:
            pass
    return False


def auto_newline(s):
    if s.startswith(("*", "#", ":", ";", "{|")):
        return "\n" + s
    return s


def nowiki_quote(s):
    return "".join(NOWIKI_MAP.get(ch, ch) for ch in s)


def norm_key(k):
    k = trim(k)
    if k.isdigit() and k.isascii() and int(k) > 0:
        return int(k)
    return " ".join(k.split())


BOTTOM = "\ue000DIVERGES\ue000"


class OutOfDomain(Exception):
    """The case left the domain on which the reference is defined."""


class Budget(Exception):
    """Non-termination / too deep by the pure semantics."""


class Frame:
    def __init__(self, title, args):
        self.title = title
        self.args = args


class Interp:
    def __init__(self, lib, selected=None, template_fn=None,
                 post_template_fn=None, max_depth=60, fuel=20000,
                 expand_pfn=True, invoke_fn=None):
        self.lib = lib
        self.selected = selected  # None = all; else predicate name->bool
        self.template_fn = template_fn
        self.post_template_fn = post_template_fn
        self.max_depth = max_depth
        self.fuel = fuel
        self.expand_pfn = expand_pfn
        self.invoke_fn = invoke_fn
        self.call_log = []
        self.nowikis = []
        self.stack = []
        self.stats = {
            "calls": 0, "max_nest": 0, "named_blank": 0, "defaults": 0,
            "missing": 0, "auto_newline": 0, "dup_keys": 0, "pfn": 0,
            "literal_params": 0,
        }

    # -- helpers
    def finish(self, out):
        return _NW_RE.sub(lambda m: self.nowikis[int(m.group(1))], out)

    def _burn(self):
        self.fuel -= 1
        if self.fuel < 0:
            raise Budget("fuel")

    def eval_seq(self, seq, frame, selective=False):
        return "".join(self.eval_node(n, frame, selective) for n in seq)

    def _eval_arg(self, seq, frame):
        """Argument value; with bottom_args on, an argument whose evaluation
        diverges (cycle / excessive depth) becomes a marker instead of
        aborting the whole evaluation - the caller can then see whether the
        divergent value is ever used."""
        if not getattr(self, "bottom_args", False):
            return self.eval_seq(seq, frame)
        depth = len(self.stack)
        try:
            return self.eval_seq(seq, frame)
        except Budget as e:
            if str(e) == "fuel":
                raise
            del self.stack[depth:]
            self.stats["bottom_args"] = self.stats.get("bottom_args", 0) + 1
            return BOTTOM

    def build_args(self, arglist, frame):
        args = {}
        num = 1
        for a in arglist:
            if a[0] == "pos":
                v = self._eval_arg(a[1], frame)
                if v.endswith("\n"):
                    raise OutOfDomain("positional value ends in newline")
                if "=" in v:
                    raise OutOfDomain("'=' in positional value")
                k = num
                num += 1
            else:
                k = norm_key(a[1])
                raw = self._eval_arg(a[2], frame)
                v = trim(raw)
                p = a[3]
                if any(p) or raw != v:
                    self.stats["named_blank"] += 1
            if k in args:
                self.stats["dup_keys"] += 1
            args[k] = v
        return args

    def eval_node(self, n, frame, selective=False):
        self._burn()
        k = n[0]
        if k == "T":
            return n[1]
        if k == "N":
            # nowiki content is opaque (a strip marker) until the very end:
            # trimming and marker detection never look inside it
            self.nowikis.append(nowiki_quote(n[1]))
            return NW_OPEN + str(len(self.nowikis) - 1) + NW_CLOSE
        if k == "L":
            return "[[" + "|".join(
                self.eval_seq(s, frame, selective) for s in n[1]) + "]]"
        if k == "P":
            key = norm_key(n[1])
            if frame is not None and key in frame.args:
                return frame.args[key]
            if n[2] is not None:
                self.stats["defaults"] += 1
                return self.eval_seq(n[2], frame, selective)
            self.stats["literal_params"] += 1
            return "{{{" + str(key) + "}}}"
        if k == "C":
            return self.eval_call(n, frame, selective)
        if k in ("IF", "IFEQ", "SW") and not self.expand_pfn:
            # disabled parser functions are emitted as the call they were
            from gens.exp import render_node

            return render_node(n)
        if k == "IF":
            self.stats["pfn"] += 1
            c = trim(self.eval_seq(n[1], frame))
            br = n[2] if c else n[3]
            r = trim(self.eval_seq(br, frame)) if br is not None else ""
            return self._pfn_result(r)
        if k == "IFEQ":
            self.stats["pfn"] += 1
            a = trim(self.eval_seq(n[1], frame))
            b = trim(self.eval_seq(n[2], frame))
            br = n[3] if cmp_eq(a, b) else n[4]
            r = trim(self.eval_seq(br, frame)) if br is not None else ""
            return self._pfn_result(r)
        if k == "SW":
            self.stats["pfn"] += 1
            return self._pfn_result(self.eval_switch(n, frame))
        if k == "INV":
            if self.invoke_fn is None:
                raise OutOfDomain("invoke without model")
            return self.invoke_fn(self, n, frame, selective)
        raise ValueError(k)

    def _pfn_result(self, r):
        r2 = auto_newline(r)
        if r2 != r:
            self.stats["auto_newline"] += 1
        return r2

    def eval_switch(self, n, frame):
        val = trim(self.eval_seq(n[1], frame))
        found = False
        for c in n[2]:
            if c[0] == "bare":
                if cmp_eq(trim(c[1]), val):
                    found = True
            else:
                if found or cmp_eq(trim(c[1]), val):
                    return trim(self.eval_seq(c[2], frame))
        tail = n[3]
        if tail is None:
            # a trailing bare case is the default value
            if n[2] and n[2][-1][0] == "bare":
                return trim(n[2][-1][1])
            return ""
        if tail[0] == "last":
            # last argument without '=' is the default; it is also compared
            v = trim(self.eval_seq(tail[1], frame))
            return v
        return trim(self.eval_seq(tail[1], frame))

    def emit_arg(self, a, frame):
        """An argument of a call that is NOT expanded: written back as it was,
        with the constructs inside it evaluated under the same selection."""
        if a[0] == "pos":
            return self.eval_seq(a[1], frame, True)
        p = a[3]
        return (p[0] + a[1] + p[1] + "=" + p[2]
                + self.eval_seq(a[2], frame, True) + p[3])

    def eval_call(self, n, frame, selective):
        # the name part may itself hold constructs ({{ {{ta}} |x}}): it is
        # evaluated in the caller's frame, under the same selection, first
        written = n[1]
        if isinstance(written, list):
            written = self.eval_seq(written, frame, selective)
            self.stats["computed_names"] = \
                self.stats.get("computed_names", 0) + 1
        name = trim(written)
        if selective and not (self.selected is None or self.selected(name)):
            # not selected: emitted as a call with the same name and arguments
            self.stats["reemitted"] = self.stats.get("reemitted", 0) + 1
            if self.stack:
                self.stats["reemit_in_body"] = 1
            return "{{" + "|".join(
                [written] + [self.emit_arg(a, frame) for a in n[2]]) + "}}"
        if selective:
            self.stats["selected_expanded"] = \
                self.stats.get("selected_expanded", 0) + 1
        self.stats["calls"] += 1
        args = self.build_args(n[2], frame)
        ent = self.lib.get(name)
        self.call_log.append((name, dict(args)))
        idx = len(self.call_log) - 1
        t = None
        if self.template_fn is not None:
            t = self.template_fn(name, dict(args), idx)
        if t is None:
            if ent is None:
                self.stats["missing"] += 1
                t = "[[:Template:" + name + "]]"
            else:
                key = (name, tuple(sorted((str(k), v) for k, v in args.items())))
                if key in self.stack:
                    raise Budget("loop")
                if len(self.stack) >= self.max_depth:
                    raise Budget("depth")
                self.stack.append(key)
                self.stats["max_nest"] = max(self.stats["max_nest"],
                                             len(self.stack))
                try:
                    t = self.eval_seq(ent["body"], Frame(name, args),
                                      selective)
                finally:
                    self.stack.pop()
        t2 = auto_newline(t)
        if t2 != t:
            self.stats["auto_newline"] += 1
        t = t2
        if self.post_template_fn is not None and t:
            r = self.post_template_fn(name, dict(args), t, idx)
            if r is not None:
                t = r
        return t


def evaluate(page, lib, selective=False, **kw):
    it = Interp(lib, **kw)
    out = it.eval_seq(page, None, selective)
    return it.finish(out), it
