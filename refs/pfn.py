"""R-expr / R-strfn — reference definitions of the parser functions named in
C18, written from the MediaWiki ParserFunctions / StringFunctions help pages
(documented parameters only).  No code shared with the package; string search
and replacement are spelled out instead of delegating to str.find/replace so
the oracle is not the implementation under another name."""

import math

# --------------------------------------------------------------------- #expr
# Precedence table of Help:Extension:ParserFunctions##expr (higher binds
# tighter); every binary operator is left-associative.
CMP = ("=", "!=", "<>", "<", ">", "<=", ">=")
MUL = ("*", "/", "div", "mod")
ADD = ("+", "-")
UNARY_FNS = ("not", "ceil", "trunc", "floor", "abs", "sqrt", "exp", "ln",
             "sin", "cos", "tan", "acos", "asin", "atan")
BINARY = ("or", "and") + CMP + ("round",) + ADD + MUL + ("^", "e")


def prec(op, unary=False):
    if unary:
        return 10 if op in ("neg", "pos") else 9
    if op == "or":
        return 2
    if op == "and":
        return 3
    if op in CMP:
        return 4
    if op == "round":
        return 5
    if op in ADD:
        return 6
    if op in MUL:
        return 7
    if op == "^":
        return 8
    if op == "e":
        return 10
    raise KeyError(op)


class Drop(Exception):
    """The reference declines: outside the domain where the documented
    semantics and IEEE/Python arithmetic are known to agree."""


EPS = 1e-7


def _near_int(x):
    return abs(x - round(x)) < EPS and not float(x).is_integer()


def _chk(v):
    if isinstance(v, float) and (math.isnan(v) or math.isinf(v)):
        raise Drop("non-finite")
    if abs(v) > 1e15:
        raise Drop("magnitude")
    return v


def ev(ast):
    """Value of an expression AST.  ('n', text) | ('c', name) |
    ('u', op, x) | ('b', op, l, r)."""
    k = ast[0]
    if k == "n":
        t = ast[1]
        return int(t) if t.isdigit() else float(t)
    if k == "c":
        return math.pi if ast[1] == "pi" else math.e
    if k == "u":
        op = ast[1]
        x = ev(ast[2])
        if op == "neg":
            return -x
        if op == "pos":
            return x
        if op == "not":
            if x != 0 and abs(x) < EPS:
                raise Drop("fragile not")
            return 1 if x == 0 else 0
        if op in ("ceil", "trunc", "floor"):
            if _near_int(x):
                raise Drop("fragile rounding")
            return {"ceil": math.ceil, "trunc": math.trunc,
                    "floor": math.floor}[op](x)
        if op == "abs":
            return abs(x)
        try:
            if op == "sqrt":
                if x < 0:
                    raise Drop("sqrt domain")
                return _chk(math.sqrt(x))
            if op == "exp":
                if x > 30:
                    raise Drop("exp range")
                return _chk(math.exp(x))
            if op == "ln":
                if x <= 0:
                    raise Drop("ln domain")
                return _chk(math.log(x))
            if op in ("acos", "asin"):
                if abs(x) > 1:
                    raise Drop("arc domain")
            return _chk(getattr(math, op)(x))
        except (ValueError, OverflowError):
            raise Drop("math domain")
    op = ast[1]
    a = ev(ast[2])
    b = ev(ast[3])
    if op in ("or", "and"):
        for v in (a, b):
            if v != 0 and abs(v) < EPS:
                raise Drop("fragile truth value")
        if op == "or":
            return 1 if (a != 0 or b != 0) else 0
        return 1 if (a != 0 and b != 0) else 0
    if op in CMP:
        if a != b and abs(a - b) < EPS * max(1.0, abs(a), abs(b)):
            raise Drop("fragile comparison")
        return int({"=": a == b, "!=": a != b, "<>": a != b, "<": a < b,
                    ">": a > b, "<=": a <= b, ">=": a >= b}[op])
    if op == "round":
        if not isinstance(b, int) or not (0 <= b <= 3):
            raise Drop("round digits")
        s = a * 10 ** b
        if abs(abs(s - math.floor(s)) - 0.5) < 1e-6:
            raise Drop("round tie")
        # round half away from zero == round to nearest when no tie
        r = math.floor(s + 0.5) / 10 ** b
        return r
    if op == "+":
        return _chk(a + b)
    if op == "-":
        return _chk(a - b)
    if op == "*":
        return _chk(a * b)
    if op in ("/", "div"):
        if b == 0:
            raise Drop("division by zero")
        return _chk(a / b)
    if op == "mod":
        if not (isinstance(a, int) and isinstance(b, int)) or a < 0 or b <= 0:
            raise Drop("mod domain")
        return a - b * (a // b)
    if op == "^":
        if a < 0 and not float(b).is_integer():
            raise Drop("pow domain")
        if a == 0 and b <= 0:
            raise Drop("pow domain")
        if abs(b) > 8 or abs(a) > 1e4:
            raise Drop("pow range")
        try:
            return _chk(float(a) ** float(b))
        except (OverflowError, ZeroDivisionError):
            raise Drop("pow range")
    if op == "e":
        if not isinstance(b, int) or abs(b) > 6:
            raise Drop("e exponent")
        return _chk(a * 10.0 ** b)
    raise KeyError(op)


def depth(ast):
    if ast[0] in ("n", "c"):
        return 1
    return 1 + max(depth(x) for x in ast[2:])


def binops(ast, acc=None):
    acc = [] if acc is None else acc
    if ast[0] == "b":
        acc.append(ast[1])
    if ast[0] in ("u", "b"):
        for x in ast[2:]:
            binops(x, acc)
    return acc


def tokens(ast, full=False):
    """Token list of a rendering: minimal parentheses by the documented
    precedence / left associativity, or full parentheses."""
    k = ast[0]
    if k in ("n", "c"):
        return [ast[1]]
    if k == "u":
        op = ast[1]
        sym = {"neg": "-", "pos": "+"}.get(op, op)
        x = ast[2]
        p = prec(op, True)
        inner = tokens(x, full)
        need = full and x[0] in ("u", "b")
        if x[0] == "b" and prec(x[1]) <= p:
            need = True
        # a prefix operator directly under another prefix operator is a
        # plain chain ("- sin 2"), no parentheses needed
        return [sym] + (["("] + inner + [")"] if need else inner)
    op = ast[1]
    p = prec(op)
    l, r = ast[2], ast[3]
    lt = tokens(l, full)
    rt = tokens(r, full)
    ln = full and l[0] in ("u", "b")
    rn = full and r[0] in ("u", "b")
    if l[0] == "b" and prec(l[1]) < p:
        ln = True
    if l[0] == "u" and prec(l[1], True) < p:
        ln = True
    if r[0] == "b" and prec(r[1]) <= p:
        rn = True
    # a prefix operator that binds less tightly than the operator on its left
    # would swallow what follows it; parenthesise (sound in every context)
    if r[0] == "u" and prec(r[1], True) < p:
        rn = True
    # a left operand whose right edge is a loose prefix operator would also
    # swallow this operator's right operand
    if not ln and _loose_right_edge(l, p):
        ln = True
    return ((["("] + lt + [")"]) if ln else lt) + [op] + \
        ((["("] + rt + [")"]) if rn else rt)


def _loose_right_edge(ast, p):
    """True when the unparenthesised right edge of ast is a prefix operator
    binding less tightly than p (it would capture the following operator)."""
    while True:
        if ast[0] == "u":
            if prec(ast[1], True) < p:
                return True
            x = ast[2]
            if x[0] == "b" and prec(x[1]) <= prec(ast[1], True):
                return False  # parenthesised operand
            ast = x
        elif ast[0] == "b":
            r = ast[3]
            if r[0] == "b" and prec(r[1]) <= prec(ast[1]):
                return False
            if r[0] == "u" and prec(r[1], True) < prec(ast[1]):
                return False
            ast = r
        else:
            return False


def _wordy(t):
    return t[0].isalnum() or t[0] == "." or t[-1] == "."


def join(toks, gaps, cases):
    """Text of a token list.  gaps[i] in 0..2 blanks after token i (forced to
    >= 1 between two word/number tokens), cases[i] picks the letter case."""
    out = []
    for i, t in enumerate(toks):
        if t[0].isalpha():
            c = cases[i % len(cases)] if cases else 0
            t = (t, t.upper(), t.capitalize())[c % 3]
        out.append(t)
        if i + 1 < len(toks):
            g = gaps[i % len(gaps)] if gaps else 1
            nxt = toks[i + 1]
            if g == 0 and _wordy(toks[i]) and _wordy(nxt):
                g = 1
            # never fuse two operator tokens into another operator
            if g == 0 and (toks[i] + nxt) in ("<>", "<=", ">=", "!=", "=="):
                g = 1
            if g == 0 and toks[i] in ("<", "!", ">") and nxt[0] in "=>-!":
                g = 1
            out.append(" " * g)
    return "".join(out)


# ----------------------------------------------------------- string functions
def find(hay, needle, start=0):
    if start < 0:
        start = 0
    for i in range(start, len(hay) - len(needle) + 1):
        if hay[i:i + len(needle)] == needle:
            return i
    return -1


def rfind(hay, needle):
    for i in range(len(hay) - len(needle), -1, -1):
        if hay[i:i + len(needle)] == needle:
            return i
    return -1


def split(hay, delim):
    out = []
    i = 0
    while True:
        j = find(hay, delim, i)
        if j < 0:
            out.append(hay[i:])
            return out
        out.append(hay[i:j])
        i = j + len(delim)


def trim(s):
    return s.strip(" \t\n\r")


def f_len(s):
    return str(len(trim(s)))


def f_pos(s, needle="", offset=0):
    s = trim(s)
    needle = trim(needle) or " "
    i = find(s, needle, offset)
    return "" if i < 0 else str(i)


def f_rpos(s, needle=""):
    s = trim(s)
    needle = trim(needle) or " "
    return str(rfind(s, needle))


def f_sub(s, start=0, length=0):
    s = trim(s)
    n = len(s)
    if start < 0:
        start = max(0, n + start)
    if start > n:
        return ""
    rest = s[start:]
    if length == 0:
        return rest
    if length > 0:
        return rest[:length]
    keep = len(rest) + length
    return rest[:keep] if keep > 0 else ""


def f_replace(s, needle="", repl=""):
    s = trim(s)
    needle = trim(needle) or " "
    return trim(repl).join(split(s, needle))


def f_explode(s, delim="", position=0, limit=0):
    s = trim(s)
    delim = trim(delim) or " "
    parts = split(s, delim)
    if limit > 0 and len(parts) > limit:
        parts = parts[:limit - 1] + [delim.join(parts[limit - 1:])]
    if position < 0:
        position += len(parts)
    if position < 0 or position >= len(parts):
        return ""
    return parts[position]


def f_titleparts(s, count=0, first=1):
    """Help:Extension:ParserFunctions##titleparts: segments separated by '/',
    first segment is number 1; negative count strips from the end, negative
    first counts from the end."""
    s = trim(s)
    bits = s.split("/")
    n = len(bits)
    if first > 0:
        off = first - 1
    elif first < 0:
        off = max(0, n + first)
    else:
        off = 0
    bits_from = bits[off:] if off < n else []
    if count == 0:
        sel = bits_from
    elif count > 0:
        sel = bits_from[:count]
    else:
        # negative: strip -count segments from the end of the whole title
        end = n + count
        sel = bits[off:end] if end > off else []
    return "/".join(sel)


def f_pad(s, count, pad, left):
    s = trim(s)
    if pad is None:
        pad = "0"
    if count is None or count < 0:
        count = 0
    gap = count - len(s)
    if gap <= 0 or pad == "":
        return s
    fill = (pad * (gap // len(pad) + 1))[:gap]
    return fill + s if left else s + fill


def group(intpart, method, sep):
    """Digit grouping: method (3,0) = groups of three; (3,2,0) = one group of
    three then groups of two (Indian); () = no grouping."""
    if not method:
        return intpart
    out = []
    rest = intpart
    i = 0
    size = method[0]
    while rest:
        out.append(rest[-size:])
        rest = rest[:-size]
        if i + 1 < len(method):
            i += 1
            if method[i] > 0:
                size = method[i]
    return sep.join(reversed(out))


def f_formatnum(x, loc):
    if "." in x:
        ip, fp = x.split(".", 1)
        return group(ip, tuple(loc["grouping_method"]),
                     loc["grouping_separator"]) + loc["decimal_point"] + fp
    return group(x, tuple(loc["grouping_method"]), loc["grouping_separator"])


_UNRESERVED = set("abcdefghijklmnopqrstuvwxyzABCDEFGHIJKLMNOPQRSTUVWXYZ"
                  "0123456789-_.")


def f_urlencode(s, fmt):
    s = trim(s)
    out = []
    if fmt == "WIKI":
        s = "_".join(s.split())
    for ch in s:
        if ch in _UNRESERVED:
            out.append(ch)
        elif ch == " ":
            out.append("+" if fmt == "QUERY" else "%20")
        elif fmt == "WIKI" and ch in "/:":
            out.append(ch)
        else:
            out.append("".join("%%%02X" % b for b in ch.encode("utf-8")))
    return "".join(out)
