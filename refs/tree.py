"""R-tree: well-formedness predicate over a WikiNode tree (DESIGN C01), and
R-canon, the canonical form used by C03 / C19 / C09."""

PLACEHOLDER_LO = 0x10203D
PLACEHOLDER_HI = 0x10FFF0


def has_placeholder(s: str) -> bool:
    for ch in s:
        o = ord(ch)
        if PLACEHOLDER_LO <= o <= PLACEHOLDER_HI:
            return True
    return False


def check_tree(root, title, NodeKind, WikiNode):
    """Returns a list of (rule, detail) problems; empty when well-formed."""
    K = NodeKind
    probs = []

    def bad(rule, detail):
        if len(probs) < 20:
            probs.append((rule, detail))

    if not isinstance(root, WikiNode) or root.kind != K.ROOT:
        bad("root-kind", repr(root)[:80])
        return probs
    if root.largs != [[title]]:
        bad("root-args", repr(root.largs)[:80])

    SARG_KINDS = (K.HTML, K.LIST, K.LIST_ITEM, K.MAGIC_WORD)
    LARGS_KINDS = (K.TEMPLATE, K.TEMPLATE_ARG, K.PARSER_FN, K.URL, K.LINK)
    NOCHILD_KINDS = (K.TEMPLATE, K.TEMPLATE_ARG, K.PARSER_FN, K.URL)

    def check_seq(seq, where, parent_kind):
        prev_str = False
        if not isinstance(seq, list):
            bad("seq-type", f"{where}: {type(seq).__name__}")
            return
        for x in seq:
            if isinstance(x, str):
                if x == "":
                    bad("empty-string", where)
                if prev_str:
                    bad("adjacent-strings", where)
                if has_placeholder(x):
                    bad("placeholder-char", f"{where}: {x!r}"[:100])
                prev_str = True
            elif isinstance(x, WikiNode):
                prev_str = False
                visit(x, parent_kind)
            else:
                bad("child-type", f"{where}: {type(x).__name__}")

    def visit(n, parent_kind):
        k = n.kind
        if k == K.ROOT and parent_kind is not None:
            bad("nested-root", "")
        if k == K.LIST_ITEM and parent_kind != K.LIST:
            bad("list-item-parent", str(parent_kind))
        if k in (K.TABLE_ROW, K.TABLE_CAPTION) and parent_kind != K.TABLE:
            bad("table-row-parent", f"{k.name} under {parent_kind}")
        if (
            k in (K.TABLE_CELL, K.TABLE_HEADER_CELL)
            and parent_kind != K.TABLE_ROW
        ):
            bad("table-cell-parent", f"{k.name} under {parent_kind}")
        if not isinstance(n.sarg, str):
            bad("sarg-type", k.name)
        elif has_placeholder(n.sarg):
            bad("placeholder-char", "sarg")
        if k in SARG_KINDS:
            if not n.sarg:
                bad("sarg-empty", k.name)
            if n.largs != []:
                bad("sarg-kind-has-largs", k.name)
        else:
            if n.sarg != "":
                bad("sarg-on-largs-kind", k.name)
        if not isinstance(n.largs, list):
            bad("largs-type", k.name)
        else:
            if k in LARGS_KINDS and k != K.LINK:
                if len(n.largs) == 0:
                    bad("largs-empty", k.name)
            if k in NOCHILD_KINDS and n.children != []:
                bad("children-on-args-kind", k.name)
            for i, sub in enumerate(n.largs):
                check_seq(sub, f"{k.name}.largs[{i}]", None)
        if not isinstance(n.attrs, dict):
            bad("attrs-type", k.name)
        else:
            for ak, av in n.attrs.items():
                if not isinstance(ak, str) or not isinstance(av, str):
                    bad("attrs-value-type", k.name)
                elif has_placeholder(ak) or has_placeholder(av):
                    bad("placeholder-char", "attrs")
        if n.temp_head is not None:
            bad("temp-head-left", k.name)
        if n.definition is not None:
            check_seq(n.definition, f"{k.name}.definition", None)
        check_seq(n.children, f"{k.name}.children", k)

    visit(root, None)
    return probs


def depth(node, WikiNode):
    if not isinstance(node, WikiNode):
        return 0
    d = 0
    for c in node.children:
        d = max(d, depth(c, WikiNode))
    for sub in node.largs:
        for c in sub:
            d = max(d, depth(c, WikiNode))
    return d + 1


# ------------------------------------------------------------------ R-canon

BLOCK_KINDS = None


def canon(node, NodeKind, WikiNode, strip_block_ws=True):
    """Canonical nested-tuple form: kinds, sarg, largs, attrs, text.
    With strip_block_ws: whitespace-only strings adjacent to block nodes are
    dropped, whitespace at both ends of a block node's children (and of the
    document) is stripped, and runs of newlines are collapsed to one."""
    K = NodeKind
    block = (
        K.ROOT, K.LEVEL1, K.LEVEL2, K.LEVEL3, K.LEVEL4, K.LEVEL5, K.LEVEL6,
        K.HLINE, K.LIST, K.LIST_ITEM, K.TABLE, K.TABLE_CAPTION, K.TABLE_ROW,
        K.TABLE_HEADER_CELL, K.TABLE_CELL, K.PRE, K.PREFORMATTED,
    )

    def is_block(x):
        return isinstance(x, WikiNode) and x.kind in block

    def seq(items, owner_block):
        out = []
        items = list(items)
        n = len(items)
        for i, x in enumerate(items):
            if isinstance(x, str):
                s = x
                if strip_block_ws:
                    import re

                    prev_b = i > 0 and is_block(items[i - 1])
                    next_b = i + 1 < n and is_block(items[i + 1])
                    if (prev_b or next_b or owner_block) and not s.strip():
                        if prev_b or next_b or i == 0 or i == n - 1:
                            continue
                    if owner_block and i == 0:
                        s = s.lstrip()
                    elif prev_b:
                        s = s.lstrip()
                    if owner_block and i == n - 1:
                        s = s.rstrip()
                    elif next_b:
                        s = s.rstrip()
                    s = re.sub(r"\n+", "\n", s)
                    if not s:
                        continue
                if out and isinstance(out[-1], str):
                    out[-1] = out[-1] + s
                else:
                    out.append(s)
            else:
                out.append(one(x))
        return tuple(out)

    def one(n):
        if isinstance(n, str):
            return n
        ob = n.kind in block
        return (
            n.kind.name,
            n.sarg,
            tuple(seq(sub, False) for sub in n.largs),
            tuple(sorted(n.attrs.items())),
            seq(n.children, ob),
            None if n.definition is None else seq(n.definition, ob),
        )

    if isinstance(node, (list, tuple)):
        return seq(node, True)
    return one(node)


def strict(node, WikiNode):
    """Exact structural form (no whitespace forgiveness)."""
    if isinstance(node, str):
        return node
    if isinstance(node, (list, tuple)):
        return tuple(strict(x, WikiNode) for x in node)
    return (
        node.kind.name,
        node.sarg,
        tuple(tuple(strict(x, WikiNode) for x in sub) for sub in node.largs),
        tuple(sorted(node.attrs.items())),
        tuple(strict(x, WikiNode) for x in node.children),
        None
        if node.definition is None
        else tuple(strict(x, WikiNode) for x in node.definition),
    )
