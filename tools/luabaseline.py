#!/venv/bin/python
"""Our own extra regression net for Lua-side repairs: runs the repository suite
with the stand-in Scribunto library (tools/luafix_plugin.py) and compares the
set of passing tests with tools/lua_baseline.json (--record rewrites it)."""
import json, os, subprocess, sys, tempfile
import xml.etree.ElementTree as ET

HERE = os.path.dirname(os.path.abspath(__file__))
repo = "/repo"
args = [a for a in sys.argv[1:] if not a.startswith("--")]
if args:
    repo = args[0]
env = dict(os.environ, PYTHONPATH=repo + "/src:" + HERE)
with tempfile.TemporaryDirectory() as d:
    x = os.path.join(d, "r.xml")
    subprocess.run(["/venv/bin/python", "-m", "pytest", "-q", "-p", "no:cacheprovider",
                    "-p", "luafix_plugin", "--timeout=900", "-n", "8", f"--junitxml={x}"],
                   cwd=repo, env=env, stdout=subprocess.DEVNULL, stderr=subprocess.DEVNULL)
    passed = set()
    for tc in ET.parse(x).getroot().iter("testcase"):
        if not any(c.tag in ("failure", "error", "skipped") for c in tc):
            passed.add(f"{tc.get('classname')}::{tc.get('name')}")
bf = os.path.join(HERE, "lua_baseline.json")
if "--record" in sys.argv:
    json.dump(sorted(passed), open(bf, "w"), indent=0)
    print("recorded", len(passed))
    sys.exit(0)
want = set(json.load(open(bf)))
lost = sorted(want - passed)
print(f"lua-baseline={len(want)} passing_now={len(want & passed)} lost={len(lost)} new={len(passed - want)}")
for m in lost[:20]:
    print("  LOST", m)
sys.exit(1 if lost else 0)
