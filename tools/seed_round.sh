#!/bin/sh
# Prepares a seeding round: for every property id given, a scratch worktree
# /tmp/seed-<id> of /repo's HEAD and the sub-agent prompt /tmp/prompt-<id>.txt
# (property text + summaries of the changes already filed for it, so that the
# new one uses a different mechanism).  Nothing from /verif goes into the
# worktree except the stand-in Lua library copy /tmp/luafix.
cd /verif || exit 2
rm -rf /tmp/luafix; cp -r fixtures/lua /tmp/luafix
for p in "$@"; do
  git -C /repo worktree remove --force /tmp/seed-$p 2>/dev/null
  rm -rf /tmp/seed-$p
  git -C /repo worktree add -q --detach /tmp/seed-$p || exit 2
  mkdir -p /tmp/seed-$p/_seed
  /venv/bin/python tools/seed_prompt.py $p > /tmp/prompt-$p.txt
  prev=$(python3 -c "
import json,glob
for f in sorted(glob.glob('/verif/seeded/$p-*/meta.json')):
    print('-', json.load(open(f)).get('summary','')[:350])
")
  if [ -n "$prev" ]; then
    printf '\n\nNOTE: other engineers have already delivered the following change(s) for this property; yours must be in a DIFFERENT function / mechanism and need a different kind of input, history, crash point, schedule or option combination to manifest:\n%s\n' "$prev" >> /tmp/prompt-$p.txt
  fi
done
git -C /repo worktree list
