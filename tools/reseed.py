#!/venv/bin/python
"""Re-runs the filed seeded changes against the current checks: for every
/verif/seeded/<name>/ a scratch worktree of /repo's HEAD gets patch.diff, the
quick tier of the named property's check (and of every other check that
caught it at filing time) runs against it through VERIF_REPO, the worktree is
removed.  Evidence files of the real tree are preserved.

usage: reseed.py [--all | name ...] [--tier quick] [--update]
--update writes the results back into seeded/<name>/meta.json
(confirmed.checks), e.g. after a check was strengthened.
"""

import json
import os
import shutil
import subprocess
import sys
import time
from pathlib import Path

HERE = Path(__file__).resolve().parent.parent


def run_one(name, tier):
    sd = HERE / "seeded" / name
    meta = json.loads((sd / "meta.json").read_text())
    own = name.split("-")[0]
    if meta.get("retired"):
        return [(own, "RETIRED", 0.0, ["no longer breaks the property, see meta.json"])]
    props = [own] + [p for p, v in meta.get("confirmed", {}).get("checks", {}).items()
                     if v.get("result") == "CAUGHT" and p != own]
    wt = Path(f"/tmp/verif-reseed-{os.getpid()}-{name[:40]}")
    subprocess.run(["git", "-C", "/repo", "worktree", "add", "-q", "--detach",
                    str(wt)], check=True)
    out = []
    try:
        r = subprocess.run(["git", "-C", str(wt), "apply", "-C1",
                            str(sd / "patch.diff")], capture_output=True,
                           text=True)
        if r.returncode != 0:
            return [(own, "STALE", 0.0, r.stderr.strip().splitlines()[-1:])]
        for prop in props:
            env = dict(os.environ, VERIF_REPO=str(wt))
            t0 = time.time()
            r = subprocess.run(["/venv/bin/python", str(HERE / "check.py"),
                                prop, "--tier", tier], env=env, cwd=HERE,
                               capture_output=True, text=True, timeout=7200)
            txt = r.stdout + r.stderr
            for l in txt.splitlines():
                if l.startswith("VIOLATION"):
                    try:
                        (HERE / l.split("replay=")[-1].strip()).unlink()
                    except OSError:
                        pass
            what = [l.strip()[:140] for l in txt.splitlines()
                    if l.strip().startswith("what:")][:1]
            st = {0: "MISSED", 1: "CAUGHT"}.get(r.returncode,
                                                 f"ERROR({r.returncode})")
            out.append((prop, st, time.time() - t0, what))
        return out
    finally:
        subprocess.run(["git", "-C", "/repo", "worktree", "remove", "--force",
                        str(wt)], capture_output=True)
        shutil.rmtree(wt, ignore_errors=True)


def main():
    args = [a for a in sys.argv[1:] if not a.startswith("--")]
    tier = "quick"
    if "--tier" in sys.argv:
        tier = sys.argv[sys.argv.index("--tier") + 1]
        args.remove(tier)
    names = sorted(p.name for p in (HERE / "seeded").iterdir() if p.is_dir())
    if "--all" not in sys.argv:
        names = [n for n in names if n in args or any(n.startswith(a) for a in args)]
    saved = {p: p.read_text() for p in (HERE / "evidence").glob("*.json")}
    try:
        for n in names:
            for prop, st, dt, what in run_one(n, tier):
                print(f"{n:48s} {prop} {st:8s} {dt:6.1f}s  {' '.join(what)}")
                sys.stdout.flush()
                if "--update" in sys.argv and st in ("CAUGHT", "MISSED"):
                    mp = HERE / "seeded" / n / "meta.json"
                    meta = json.loads(mp.read_text())
                    meta.setdefault("confirmed", {}).setdefault(
                        "checks", {})[prop] = {
                        "tier": tier, "exit": 1 if st == "CAUGHT" else 0,
                        "seconds": round(dt, 1), "result": st, "what": what}
                    mp.write_text(json.dumps(meta, indent=1,
                                             ensure_ascii=False) + "\n")
    finally:
        for p, s in saved.items():
            p.write_text(s)


if __name__ == "__main__":
    main()
