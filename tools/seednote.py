#!/venv/bin/python
"""seednote.py <seed name> <text>: records in seeded/<name>/meta.json
(confirmed.note) that the change was first missed and what was strengthened."""
import json
import sys
from pathlib import Path

p = Path(__file__).resolve().parent.parent / "seeded" / sys.argv[1] / "meta.json"
d = json.loads(p.read_text())
d.setdefault("confirmed", {})["note"] = sys.argv[2]
p.write_text(json.dumps(d, indent=1, ensure_ascii=False) + "\n")
