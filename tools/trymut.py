#!/venv/bin/python
"""Sensitivity runner (DESIGN 7): applies one deliberate breakage from
tools/mutations.json to a scratch worktree of /repo (outside /repo and
/verif), runs the named check's quick tier against it through VERIF_REPO,
reports caught / missed, and removes the worktree.

usage: trymut.py <mutation-id>... | --prop Cnn | --all   [--tier quick]
"""

import argparse
import json
import os
import shutil
import subprocess
import sys
import time
from pathlib import Path

HERE = Path(__file__).resolve().parent.parent
MUTS = json.loads((HERE / "tools" / "mutations.json").read_text())


def run_one(m, tier, keep=False):
    wt = Path(f"/tmp/verif-mut-{os.getpid()}-{m['id']}")
    subprocess.run(["git", "-C", "/repo", "worktree", "add", "-q", "--detach",
                    str(wt)], check=True)
    try:
        for ed in m["edits"]:
            p = wt / ed["file"]
            s = p.read_text()
            if ed["old"] not in s:
                return m["id"], "STALE", 0.0, "pattern not found in " + ed["file"]
            p.write_text(s.replace(ed["old"], ed["new"], ed.get("count", 1)))
        res = []
        for prop in m["props"]:
            env = dict(os.environ, VERIF_REPO=str(wt), VERIF_NO_EVIDENCE="1")
            t0 = time.time()
            r = subprocess.run(
                ["/venv/bin/python", str(HERE / "check.py"), prop, "--tier",
                 tier], env=env, capture_output=True, text=True, cwd=HERE,
                timeout=3600)
            dt = time.time() - t0
            out = r.stdout + r.stderr
            viol = [l for l in out.splitlines() if l.startswith("VIOLATION")]
            what = [l for l in out.splitlines() if l.strip().startswith("what:")]
            st = {0: "MISSED", 1: "CAUGHT"}.get(r.returncode,
                                                 f"ERROR({r.returncode})")
            res.append((prop, st, dt, (what[0].strip() if what else
                                       out.strip().splitlines()[-1:] )))
            # replay files written by the mutated run are not findings
            for l in viol:
                rp = l.split("replay=")[-1].strip()
                try:
                    (HERE / rp).unlink()
                except OSError:
                    pass
        return m["id"], res
    finally:
        subprocess.run(["git", "-C", "/repo", "worktree", "remove", "--force",
                        str(wt)])
        shutil.rmtree(wt, ignore_errors=True)


def main():
    ap = argparse.ArgumentParser()
    ap.add_argument("ids", nargs="*")
    ap.add_argument("--prop")
    ap.add_argument("--all", action="store_true")
    ap.add_argument("--tier", default="quick")
    a = ap.parse_args()
    sel = []
    for m in MUTS:
        if a.all or m["id"] in a.ids or (a.prop and a.prop in m["props"]):
            sel.append(m)
    # evidence of the real tree must not be overwritten by mutated runs
    saved = {}
    for p in (HERE / "evidence").glob("*.json"):
        saved[p] = p.read_text()
    try:
        for m in sel:
            if m.get("skip_reason") and not a.ids:
                print(f"{m['id']:34s} EQUIV/OUT-OF-DOMAIN  {m['skip_reason'][:120]}")
                continue
            r = run_one(m, a.tier)
            if r[1] == "STALE":
                print(f"{r[0]:34s} STALE  {r[3]}")
                continue
            for prop, st, dt, what in r[1]:
                print(f"{r[0]:34s} {prop} {st:8s} {dt:6.1f}s  {str(what)[:150]}")
            sys.stdout.flush()
    finally:
        for p, s in saved.items():
            p.write_text(s)


if __name__ == "__main__":
    main()
