#!/venv/bin/python
"""Confirms a seeded change produced by a sub-agent in /tmp/seed-<ID>[-n] and
files it under /verif/seeded/<name>/ :
  1. demo.py passes without the change and fails with it,
  2. the pinned suite still passes with the change,
  3. runs the named checks (quick tier) against the changed tree.
usage: seedcheck.py <worktree> <name> <prop> [<prop>...] [--tier quick] [--no-suite]
"""

import json
import os
import shutil
import subprocess
import sys
import time
from pathlib import Path

HERE = Path(__file__).resolve().parent.parent


def sh(cmd, cwd=None, env=None, timeout=1800):
    r = subprocess.run(cmd, cwd=cwd, env=env, capture_output=True, text=True,
                       timeout=timeout)
    return r.returncode, r.stdout + r.stderr


def main():
    args = [a for a in sys.argv[1:] if not a.startswith("--")]
    tier = "quick"
    if "--tier" in sys.argv:
        tier = sys.argv[sys.argv.index("--tier") + 1]
        args.remove(tier)
    wt, name, props = Path(args[0]), args[1], args[2:]
    seed = wt / "_seed"
    patch = seed / "patch.diff"
    env = dict(os.environ, PYTHONPATH=str(wt / "src"))
    env.pop("WIKITEXTPROCESSOR_VERIF", None)
    rec = {"worktree": str(wt), "ran": []}

    # make sure the patch is what is applied, on top of /repo's current HEAD
    sh(["git", "-C", str(wt), "checkout", "--", "src"])
    head = subprocess.run(["git", "-C", "/repo", "rev-parse", "HEAD"],
                          capture_output=True, text=True).stdout.strip()
    sh(["git", "-C", str(wt), "checkout", "-q", "--detach", head])
    rec["repo_head"] = head[:10]
    rc, out = sh(["/venv/bin/python", "_seed/demo.py"], cwd=wt, env=env, timeout=300)
    rec["demo_without_change_exit"] = rc
    rec["ran"].append(f"demo.py on unchanged tree -> exit {rc}")
    rc2, out2 = sh(["git", "-C", str(wt), "apply", "-C1", str(patch)])
    if rc2 != 0:
        print("patch does not apply:", out2)
        sys.exit(2)
    rc, out = sh(["/venv/bin/python", "_seed/demo.py"], cwd=wt, env=env, timeout=300)
    rec["demo_with_change_exit"] = rc
    rec["demo_with_change_tail"] = out.strip().splitlines()[-3:]
    rec["ran"].append(f"demo.py with change -> exit {rc}")
    if "--no-suite" not in sys.argv:
        rc, out = sh(["/venv/bin/python", str(HERE / "tools" / "baseline.py"),
                      str(wt)], env=env)
        rec["suite_with_change"] = out.strip().splitlines()[0]
        rec["ran"].append("pinned suite with change: " + rec["suite_with_change"])
    # our checks against the changed tree (evidence of the real tree preserved)
    saved = {p: p.read_text() for p in (HERE / "evidence").glob("*.json")}
    rec["checks"] = {}
    try:
        for prop in props:
            e2 = dict(os.environ, VERIF_REPO=str(wt))
            t0 = time.time()
            rc, out = sh(["/venv/bin/python", str(HERE / "check.py"), prop,
                          "--tier", tier], cwd=HERE, env=e2, timeout=7200)
            what = [l.strip() for l in out.splitlines()
                    if l.strip().startswith("what:")][:2]
            for l in out.splitlines():
                if l.startswith("VIOLATION"):
                    try:
                        (HERE / l.split("replay=")[-1].strip()).unlink()
                    except OSError:
                        pass
            rec["checks"][prop] = {
                "tier": tier, "exit": rc, "seconds": round(time.time() - t0, 1),
                "result": {0: "MISSED", 1: "CAUGHT"}.get(rc, f"ERROR {rc}"),
                "what": what,
            }
            rec["ran"].append(f"check.py {prop} --tier {tier} against the "
                              f"changed tree -> exit {rc}")
    finally:
        for p, s in saved.items():
            p.write_text(s)
    dst = HERE / "seeded" / name
    dst.mkdir(parents=True, exist_ok=True)
    # stored patch = the change relative to /repo's current HEAD
    d = subprocess.run(["git", "-C", str(wt), "diff", "--", "src"],
                       capture_output=True, text=True).stdout
    (dst / "patch.diff").write_text(d if d.strip() else patch.read_text())
    shutil.copy(seed / "demo.py", dst / "demo.py")
    meta = {}
    try:
        meta = json.loads((seed / "meta.json").read_text())
    except Exception:
        pass
    meta["confirmed"] = rec
    (dst / "meta.json").write_text(json.dumps(meta, indent=1, ensure_ascii=False))
    print(json.dumps({k: rec[k] for k in rec if k != "ran"}, indent=1))


if __name__ == "__main__":
    main()
