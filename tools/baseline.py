#!/venv/bin/python
"""Runs the repository's pinned suite (guard off) and checks that every test of
BASELINE.json's stable_pass list still passes.  exit 0 = all pass."""
import json, os, subprocess, sys, tempfile
import xml.etree.ElementTree as ET

repo = sys.argv[1] if len(sys.argv) > 1 else "/repo"
base = json.load(open("/root/.vp/BASELINE.json"))
want = set(base["stable_pass"])
env = dict(os.environ)
env.pop("WIKITEXTPROCESSOR_VERIF", None)
with tempfile.TemporaryDirectory() as d:
    x = os.path.join(d, "r.xml")
    subprocess.run(
        ["/venv/bin/python", "-m", "pytest", "-q", "-p", "no:cacheprovider",
         "--timeout=900", "--continue-on-collection-errors", "-n", "8",
         f"--junitxml={x}"], cwd=repo, env=env,
        stdout=subprocess.DEVNULL, stderr=subprocess.DEVNULL)
    passed = set()
    for tc in ET.parse(x).getroot().iter("testcase"):
        if not any(c.tag in ("failure", "error", "skipped") for c in tc):
            passed.add(f"{tc.get('classname')}::{tc.get('name')}")
missing = sorted(want - passed)
print(f"stable_pass={len(want)} passing_now={len(want & passed)} lost={len(missing)}")
for m in missing[:20]:
    print("  LOST", m)
sys.exit(1 if missing else 0)
