#!/venv/bin/python
"""Coverage-guided fuzz target (atheris / libFuzzer) for C01: the semantic
oracle (R-tree validity + empty parser stack + follow-up parse) sits inside
the target.  Bytes are decoded two ways: first byte even -> a sequence of
token indices into the G-soup alphabet (structured), odd -> UTF-8 text.

usage: fuzz_parse.py <out-json> [libFuzzer args...]
A violating input is written to <out-json> and the process exits 77.
"""

import json
import os
import sys
from pathlib import Path

HERE = Path(__file__).resolve().parent.parent
sys.path.insert(0, str(HERE))
from vlib import env  # noqa: E402  (sets sys.path; imports nothing yet)

import atheris  # noqa: E402

# the package must be imported for the first time inside the instrumenting
# context, i.e. before env.setup() imports it
with atheris.instrument_imports(include=["wikitextprocessor"]):
    import wikitextprocessor  # noqa: F401
    import wikitextprocessor.parser  # noqa: F401
    import wikitextprocessor.core  # noqa: F401
    import wikitextprocessor.parserfns  # noqa: F401

env.setup()

from checks import c01_parse_total as c01  # noqa: E402
from gens import soup  # noqa: E402
from refs import tree as rtree  # noqa: E402

ALPHABET = (soup.STRUCT + soup.TEXT + soup.TAGS + soup.TAG_VARIANTS
            + soup.COMPOSITE
            + soup.MAGIC_WORDS + ["<span" + a + ">" for a in soup.ATTRS])
OUT = sys.argv[1]
CTX = c01.make_ctx()
COUNT = {"n": 0, "structured": 0}


def decode(data: bytes):
    if not data:
        return "", "plain"
    mode = c01.MODES[data[0] % 3]
    if (data[0] >> 2) % 2 == 0:
        COUNT["structured"] += 1
        toks = []
        body = data[1:]
        for i in range(0, len(body) - 1, 2):
            toks.append(ALPHABET[(body[i] * 256 + body[i + 1]) % len(ALPHABET)])
        text = "".join(toks)
    else:
        text = data[1:].decode("utf-8", "ignore")
    # documented precondition: no placeholder-range code points on pages
    text = "".join(ch for ch in text if not rtree.has_placeholder(ch))
    return text, mode


def one_input(data: bytes):
    COUNT["n"] += 1
    text, mode = decode(data)
    r = c01.check_one(CTX, text, mode)
    if r is not None:
        sig, what = r
        with open(OUT, "w") as f:
            json.dump({"signature": sig, "what": what, "text": text,
                       "mode": mode}, f, ensure_ascii=False)
        os._exit(77)


def main():
    argv = [sys.argv[0]] + sys.argv[2:]
    atheris.Setup(argv, one_input)
    atheris.Fuzz()


if __name__ == "__main__":
    main()
