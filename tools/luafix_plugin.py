"""pytest plugin (harness side, for our own confidence only): makes the Lua
tests of the repository runnable offline by adding the stand-in Scribunto
library directory to the package's Lua search path."""
import os
import wikitextprocessor.luaexec as L

_fix = os.path.join(os.path.dirname(os.path.dirname(os.path.abspath(__file__))), "fixtures", "lua")
if (_fix, []) not in L.BUILTIN_LUA_SEARCH_PATHS:
    L.BUILTIN_LUA_SEARCH_PATHS.append((_fix, []))
