#!/opt/veriftools/pyvenv/bin/python
"""Validates MANIFEST.json and every evidence file against the schemas."""
import json, sys, glob, jsonschema
ok = True
m = json.load(open('/verif/MANIFEST.json'))
try:
    jsonschema.validate(m, json.load(open('/root/.vp/MANIFEST.schema.json')))
except Exception as e:
    ok = False; print('MANIFEST', str(e)[:500])
es = json.load(open('/root/.vp/EVIDENCE.schema.json'))
for f in sorted(glob.glob('/verif/evidence/*.json')):
    try:
        jsonschema.validate(json.load(open(f)), es)
    except Exception as e:
        ok = False; print(f, str(e)[:500])
print('valid' if ok else 'INVALID')
sys.exit(0 if ok else 1)
