#!/venv/bin/python
"""Prints the markdown table of DESIGN.md 11.1 from seeded/*/meta.json."""
import glob, json, os
rows = []
for f in sorted(glob.glob(os.path.join(os.path.dirname(__file__), "..", "seeded", "*", "meta.json"))):
    d = json.load(open(f))
    name = os.path.basename(os.path.dirname(f))
    c = d.get("confirmed", {})
    res = ", ".join(f"{k} {v['result'].lower()}" for k, v in c.get("checks", {}).items())
    if d.get("retired"):
        res = "retired: no longer breaks the property on the repaired tree"
    note = c.get("note", "")
    first = "at once" if not note else "after strengthening (see meta.json)"
    needs = " ".join(d.get("needs", "").split())[:140].replace("|", "\\|")
    rows.append((f"| {name} | {needs} | {res} | {first} |", bool(note)))
print("| Seeded change | Needs (abridged) | Quick-tier result now | Caught |")
print("|---|---|---|---|")
print("\n".join(r for r, _ in rows))
print(f"\n{len(rows)} seeded changes; {sum(1 for _, n in rows if n)} of them were caught only after the check was strengthened.")
