#!/venv/bin/python
"""Regenerates MANIFEST.json from the table below (kept valid at all times)."""

import json
from pathlib import Path

HERE = Path(__file__).resolve().parent.parent
PY = "/venv/bin/python"

# property -> (category, technique, level text, level note, design ref)
CHECKS = {
    "C01": (
        "exploration",
        "property-based testing (Hypothesis token soups / grammar documents / "
        "page mutations), exhaustive enumeration of all triples over a "
        "core token alphabet, and coverage-guided fuzzing (atheris / "
        "libFuzzer) against a tree-validity predicate",
        "Generated-input search: thousands (quick) to millions (thorough) of "
        "token soups, grammar documents, mutated real pages and deep nestings, "
        "every triple of a 51-token core alphabet, and coverage-guided "
        "campaigns with the oracle inside the target, plus pumped inputs "
        "(opener x 40 repetitions of every unit / unit pair, 30 s watchdog "
        "decisive for inputs <= 600 characters) are parsed in three "
        "modes and the returned tree is checked against the well-formedness "
        "predicate of the statement; absence of a counterexample within that "
        "search, not a proof.",
        "Trusts the validity predicate refs/tree.py and CPython; placeholder "
        "code points are excluded by the documented precondition.",
        "DESIGN.md 5/C01",
    ),
    "C04": (
        "exploration",
        "property-based differential testing (Hypothesis expansion-AST "
        "grammar) against a reference transclusion interpreter",
        "Generated (template library, page) pairs are expanded by the real "
        "Wtp.expand and by an independent reference interpreter written from "
        "the MediaWiki rules in the statement; exact string equality. "
        "Sampled search over an unbounded domain, not exhaustive.",
        "Trusts refs/transclude.py and the renderer in gens/exp.py; the "
        "domain excludes the documented intentional deviations listed in the "
        "evidence assumptions.",
        "DESIGN.md 5/C04",
    ),
    "C05": (
        "exploration",
        "exhaustive enumeration of small call graphs and of parser function "
        "x argument pool, plus Hypothesis-generated cyclic libraries and "
        "argument vectors, under a wall-clock watchdog; exception bucketing",
        "Every call graph on <=3 templates, every parser function with every "
        "pool value, and generated cyclic libraries / argument vectors / "
        "#expr operator soups are expanded under a 20 s watchdog; any "
        "exception, non-string or overrun is a violation, and divergence "
        "predicted by the reference semantics must be reported in-band.",
        "Trusts the watchdog (SIGALRM, pure-Python code), the reference "
        "interpreter's loop/depth detector, and a 6 GB address-space limit "
        "that turns runaway allocations into MemoryError.",
        "DESIGN.md 5/C05",
    ),
    "C10": (
        "exploration",
        "model-based stateful testing (Hypothesis RuleBasedStateMachine) + "
        "exhaustive enumeration of short operation sequences against a "
        "reference store model",
        "Every operation sequence up to length 3 (quick) / 4 (thorough) over "
        "a small universe and generated histories to length 40 over a larger "
        "one are applied to the real SQLite store and to a dict model; every "
        "read (all spellings), existence check, body read, template "
        "expansion and a scan through a brand-new context must agree.",
        "Trusts refs/store.py (spelling resolver written from the statement) "
        "and SQLite; writes use canonical or prefix-less titles only.",
        "DESIGN.md 5/C10",
    ),
    "C13": (
        "exploration",
        "property-based differential testing against the reference "
        "interpreter with the documented selection rule; hook call-log "
        "comparison",
        "Generated (library, page, configuration) triples: the real expand() "
        "output under pre_expand / templates_to_expand / "
        "templates_to_not_expand / flags / switches / hooks must equal the "
        "reference output, the sequence of template_fn calls must equal the "
        "reference call log, and nothing-selected pages - enumerated "
        "kept-call x container x inner-construct nestings and pages from the "
        "full grammar - must come back unchanged up to blanks and free of "
        "placeholder characters. Sampled search, not exhaustive.",
        "Trusts refs/transclude.py's selection model (taken from the expand() "
        "docstring); parser-function arguments under a selection are "
        "text-only.",
        "DESIGN.md 5/C13",
    ),
    "C16": (
        "exploration",
        "property-based invariant checking over call histories on one page "
        "(Hypothesis pages x option grid x repetition counts)",
        "After every returning expand()/parse() call the expansion path must "
        "equal its value before the call, repeated up to 300 times per page "
        "over all option combinations, with Lua errors, loops and disabled "
        "switches inside; message records are checked field by field.",
        "Trusts the Lua stand-in library files under fixtures/lua; calls that "
        "raise are skipped (C05).",
        "DESIGN.md 5/C16",
    ),
    "C02": (
        "exploration",
        "exhaustive enumeration of heading-level and list-marker sequences + "
        "Hypothesis outlines against a reference nesting model (sentinel "
        "ancestor chains)",
        "All heading-level sequences up to length 4 (with every catalogue "
        "filler and with rules) and all */# marker sequences up to 3 lines "
        "are parsed and every sentinel's chain of enclosing sections and "
        "(list, item) prefixes is compared with the reference model; random "
        "outlines to 22 lines extend this beyond the enumerated bound.",
        "Trusts refs/outline.py; only * and # markers and balanced fillers "
        "(the statement's domain).",
        "DESIGN.md 5/C02",
    ),
    "C03": (
        "exploration",
        "grid / tag-table / argument-vector enumeration + Hypothesis tables, "
        "structural oracle plus differential content comparison with the "
        "stand-alone parse",
        "Tables up to 4x4 over layouts, kind patterns and attribute maps, "
        "every paired allowed tag, and call constructs with all argument "
        "vectors up to length 2 are parsed; shape, kinds, attribute maps and "
        "argument counts must match the written structure and content must "
        "parse as it does stand-alone.",
        "Trusts refs/tree.py canon; contents drawn from a fixed inline "
        "catalogue without bare | / !!.",
        "DESIGN.md 5/C03",
    ),
    "C19": (
        "exploration",
        "property-based round-trip testing (Hypothesis structured documents) "
        "under a stated tree equivalence",
        "Generated documents of the statement's grammar are parsed, "
        "serialised, re-parsed twice; canonical trees (whitespace at block "
        "boundaries forgiven, nothing else) must be equal and the second "
        "round trip a fixed point; literal bracket strings must survive.",
        "Trusts refs/tree.py canon; one listed known finding (adjacent quote "
        "runs) is excluded by signature.",
        "DESIGN.md 5/C19",
    ),
    "C14": (
        "exploration",
        "exhaustive enumeration of argument-shape lists (length <= 3 over 15 "
        "shapes) + Hypothesis lists to length 6; three-way differential "
        "against the statement's rules",
        "Every argument list up to length 3 over the shape alphabet is run "
        "through the parser view, the template_fn view and the Lua frame view; "
        "each must equal the map given by the statement's rules (key types "
        "and values). Lists with colliding keys are outside the precondition.",
        "Trusts the echo module's dump and the Lua stand-in library.",
        "DESIGN.md 5/C14",
    ),
    "C18": (
        "exploration",
        "exhaustive enumeration (operator pairs; strings over a 4-symbol "
        "alphabet x needles x offsets; all shipped locales) + Hypothesis "
        "expression ASTs; reference definitions and metamorphic "
        "parenthesisation / spacing / case relations",
        "#expr: every ordered pair of binary operators in both association "
        "shapes, every prefix operator against every binary operator, and "
        "random ASTs to depth 5 are rendered minimally and fully "
        "parenthesised with random blanks and letter case and compared with "
        "a textbook evaluator; string functions are enumerated over all "
        "short strings x needles x offsets in [-10,10] against definitions "
        "transcribed from the help pages; plural over 0..30; formatnum "
        "round trip and grouping for all 96 localization files.",
        "Trusts refs/pfn.py; the reference declines (and counts) expressions "
        "where documented and IEEE semantics may differ (ties, mod on "
        "negatives, domain errors); one listed known finding "
        "(#titleparts start index) is excluded by signature.",
        "DESIGN.md 5/C18",
    ),
    "C15": (
        "exploration",
        "property-based testing (Hypothesis token-soup contents x 14 "
        "embedding contexts x 4 tag spellings) with an explicit entity-table "
        "oracle, a decode round trip and a metamorphic opaque-atom relation; "
        "comment-deletion differential",
        "Generated nowiki contents are embedded at top level and inside "
        "template / parser-function arguments, link text, list items, table "
        "cells, headings and elements; the expansion must be the content with "
        "exactly the documented entity table applied (decoding gives it "
        "back), parse a single text node, and expansion, template_fn log and "
        "parse tree must equal those obtained with an inert word substituted "
        "back. Generated documents with closed comments must expand and parse "
        "like the same document with the comments deleted.",
        "Trusts the entity table transcribed from common.py's documentation "
        "comment and refs/tree.py strict(); comment bodies never contain "
        "nowiki tags.",
        "DESIGN.md 5/C15",
    ),
    "C17": (
        "exploration",
        "exhaustive enumeration of inclusion digraphs on <= 3 templates x "
        "flag sets x redirect placements + Hypothesis graphs to 8 templates, "
        "against a least-fixed-point reference model, under a watchdog",
        "Every digraph with self loops on <= 3 templates with every "
        "classifier flag set and every placement of one redirect page "
        "(thorough: all 201 812; quick: every 4th) and generated graphs on up "
        "to 8 templates with redirects, dangling references and unusual "
        "names are analysed through a table-lookup classifier; the marked set "
        "must equal the reference closure and the call must return within "
        "20 s.",
        "Trusts the closure model in checks/c17_closure.py and the SIGALRM "
        "watchdog; single-hop redirects and stored spellings only.",
        "DESIGN.md 5/C17",
    ),
    "C12": (
        "exploration",
        "property-based testing: Hypothesis-generated export dumps (own XML "
        "writer, bz2) ingested through process_dump / parse_dump_xml and "
        "compared as maps with a reference model of the statement's "
        "selection rules",
        "Generated dumps over all namespaces of the language data, hostile "
        "titles and bodies (XML specials, CDATA look-alikes, whitespace, CR, "
        "astral characters), redirects, nine content models, duplicates and "
        "inclusion-control wrappers are ingested with a generated namespace "
        "selection; the stored (title, ns) -> (body, redirect, model) map "
        "must equal the reference map in both directions. Sampled search.",
        "Trusts the harness XML writer (xml.sax escaping), lxml and bz2; "
        "titles carry the correct local prefix; en (quick) / en, fr, zh "
        "(thorough).",
        "DESIGN.md 5/C12",
    ),
    "C08": (
        "exploration",
        "property-based differential testing: expansion-grammar pages with "
        "planted #invoke calls against the reference interpreter extended by "
        "the frame rules; metamorphic comparison of frame:preprocess / "
        "expandTemplate / callParserFunction with expand() of the equivalent "
        "wikitext",
        "Generated pages and template libraries with echo-module invocations "
        "at wrapper depth 0-2 must expand to exactly what the reference "
        "interpreter predicts for frame.args, the parent title and the parent "
        "arguments; generated modules calling the three frame methods must "
        "return what expand() returns for the equivalent wikitext. Sampled "
        "search, not exhaustive.",
        "Trusts refs/transclude.py, the echo module and the Lua stand-in "
        "library; arguments handed to callParserFunction carry no edge "
        "blanks (no equivalent wikitext exists for them).",
        "DESIGN.md 5/C08",
    ),
    "C09": (
        "exploration",
        "history-based differential testing: Hypothesis-generated operation "
        "histories on one context against a fresh context per step computed "
        "in a pristine child process; absolute expectations for "
        "state-mutating Lua pages",
        "Histories of up to 40 steps (start_page + parse / expand under six "
        "option sets over a ~70-page corpus including one page per Lua state "
        "channel, plus construction of other contexts with different options) "
        "run on one context; each step's expansion / strict tree / message "
        "records must equal those of a fresh context on the same database. "
        "Sampled search over histories; the Lua channel list is fixed.",
        "Trusts the Lua stand-in library and refs/tree.py strict(); message "
        "traces are not compared; four listed known findings (retained "
        "module state, shared retained library tables, writable loadData "
        "tables) are excluded by signature.",
        "DESIGN.md 5/C09",
    ),
    "C07": (
        "exploration",
        "exhaustive enumeration of a program grammar (preludes x "
        "non-terminating bodies x wrappers), each program executed in its own "
        "watchdog'd child process, followed by benign invocations on the same "
        "context",
        "All 810 programs of the grammar (thorough; quick: every body, "
        "wrapper and prelude at least once plus seeded random others) run "
        "with a 1 s limit; expand() must return the timeout element within "
        "6 s, restore the expansion and Lua stacks, and the same context must "
        "then expand benign invocations, stop another endless loop and "
        "process a new page correctly.",
        "Wall-clock oracle with a 3 s margin (the statement is about bounded "
        "time); trusts the Lua stand-in library; one listed known finding "
        "(a single long C call is not interruptible) is excluded by "
        "signature.",
        "DESIGN.md 5/C07",
    ),
    "C06": (
        "exploration",
        "exhaustive reachability enumeration over the live object graph a "
        "module receives (identity-deduplicated breadth-first walk from "
        "inside a live invocation) + attack corpus and generated path "
        "programs executed for real with canaries",
        "Every value reachable from the module environment, the frame, the "
        "string metatable, require / _cached_mod / _new_loader of every "
        "known module name in 20 decorated spellings, the results and error "
        "values of every frame method / helper / parser function called with "
        "hostile arguments, and every filter-passing attribute of every "
        "reachable Python object is compared by identity with the host's "
        "forbidden capabilities and classified (the attribute filter itself "
        "is probed from the Lua side); the classic escapes, generated path "
        "programs, hostile module pages stored under every built-in Lua "
        "file's module name, and two-step tamper histories (wrap the global "
        "helpers / push environments, then further outermost invocations) "
        "run in scratch directories with canary "
        "file, environment variable, database and context snapshots.",
        "Exhaustive only for the stated edge alphabet (no upvalues, helpers "
        "are not called with arguments by the walk); trusts lupa's table "
        "iteration and the Lua stand-in library; memory safety of Lua/lupa "
        "is out of scope.",
        "DESIGN.md 5/C06",
    ),
    "C11": (
        "fault_enumeration",
        "fault injection: exhaustive enumeration of kill points (every line "
        "event of the backup / overwrite / commit / close / restore "
        "functions, found by a line tracer in a child process) plus "
        "second-level kills of the recovering open and SIGKILL at drawn "
        "delays; state oracle from a pristine process",
        "Every executed source line of create_db, backup_db, close_db_conn, "
        "add_page, overwrite_pages, overwrite_single_page and "
        "analyze_and_overwrite_pages in a scripted life-cycle (three variants: "
        "checkpointed / pending WAL / uncommitted tail x backup / no-backup / "
        "double-backup flow) is used as a kill point "
        "(thorough: all ~1500 events per configuration, the recovering open "
        "killed at each of its lines for every third point, 80 SIGKILLs on a "
        "4 MB database; quick: every distinct line plus every 5th event); a "
        "pristine process must then open a database that passes "
        "integrity_check and holds exactly the expected page map.",
        "Process kill only (no power-loss / fsync modelling); kill points "
        "exist only where Python line events exist, the C-level backup "
        "window is covered by timed SIGKILLs; trusts sys.settrace and "
        "SQLite.",
        "DESIGN.md 5/C11",
    ),
    "C20": (
        "exploration",
        "schedule exploration with a harness-owned scheduler (worker "
        "processes gated at every line event of the start-up functions; all "
        "single-preemption schedules + seeded random schedules) and "
        "free-running multi-process stress with seeded start offsets; "
        "differential against a single process",
        "2-3 real worker processes on one database file are advanced line by "
        "line through create_db / init_wikidata_cache / "
        "add_empty_sandbox_lua_module / add_page, and parked between pages, "
        "by a scheduler that follows every single-preemption schedule, hold "
        "schedules and random schedules (backup file and stale write-ahead "
        "log present or absent); 2-16 "
        "free-running workers add timing-dependent coverage. No worker may "
        "raise, every result must equal the single-process result, stored "
        "rows must be unchanged. Sampled / preemption-bounded, not all "
        "interleavings.",
        "What happens inside SQLite's C code is reached only through the "
        "stall rule and the stress mode; a harness watchdog expiry is "
        "inconclusive; trusts sys.settrace, pipes and the Lua stand-in "
        "library.",
        "DESIGN.md 5/C20",
    ),
}

NOT_YET = "check not built yet in this round (planned in DESIGN.md section 5)"


def main():
    props = [json.loads(l) for l in (HERE / "properties.jsonl").read_text().splitlines() if l.strip()]
    checks = []
    na = []
    for p in props:
        pid = p["id"]
        if pid in CHECKS:
            cat, tech, text, note, ref = CHECKS[pid]
            checks.append({
                "property_id": pid,
                "quick_cmd": f"{PY} check.py {pid} --tier quick",
                "thorough_cmd": f"{PY} check.py {pid} --tier thorough",
                "evidence_file": f"/verif/evidence/{pid}.json",
                "replay_cmd_template": f"{PY} check.py {pid} --replay {{path}}",
                "engine": "pbt",
                "level_claimed": {"category": cat, "text": text, "design_ref": ref},
                "level_note": note,
                "technique": tech,
            })
        else:
            na.append({"property_id": pid, "reason": NA.get(pid, NOT_YET)})
    m = {
        "version": 1,
        "setup_cmd": "sh /verif/setup.sh",
        "hooks": {
            "guard": "WIKITEXTPROCESSOR_VERIF",
            "enable": "no repository hooks: checks import /repo/src directly "
                      "and instrument by harness-side monkeypatching "
                      "(DESIGN.md 2.8)",
            "baseline_off_cmd": "cd /repo && /venv/bin/python -m pytest -ra -q "
                                "-p no:cacheprovider --timeout=900 "
                                "--continue-on-collection-errors",
            "source_commits": HOOK_COMMITS,
            "add_only": True,
        },
        "engines": [{
            "name": "pbt",
            "path": "/verif/check.py",
            "serves_properties": [c["property_id"] for c in checks],
            "kind_free_text": "Hypothesis strategies / rule-based state "
                              "machines, exhaustive enumeration of small "
                              "finite domains, watchdog'd and line-traced "
                              "child processes for faults and schedules; "
                              "explicit oracles in /verif/refs",
        }],
        "checks": checks,
        "not_applicable": na,
        "notes": "See DESIGN.md. Known genuine defects are listed in "
                 "known_findings.json; fixed ones as status=fixed.",
    }
    (HERE / "MANIFEST.json").write_text(json.dumps(m, indent=1) + "\n")
    print(f"{len(checks)} checks, {len(na)} not_applicable")


NA = {}
HOOK_COMMITS = []

if __name__ == "__main__":
    main()
