#!/venv/bin/python
"""Prints the prompt for a seeding sub-agent: property text + scratch worktree
only (nothing from /verif)."""
import json, sys
pid = sys.argv[1]
wt = f"/tmp/seed-{pid}"
for l in open("/verif/properties.jsonl"):
    p = json.loads(l)
    if p["id"] == pid:
        break
lua = pid in ("C06", "C07", "C08", "C09", "C14", "C20")
print(f"""You are a software engineer asked to inject ONE realistic, subtle bug into a Python library so that a verification team can test whether their (independent) checks detect it. You never see their checks.

Library: tatuylonen/wikitextprocessor (Python wikitext parser, MediaWiki template / parser-function expander with Scribunto Lua via lupa, SQLite page store). A private scratch git worktree of it is at {wt} . Work ONLY inside {wt}. Do NOT read, list or touch /verif or /repo (off limits); do not commit anything; no network is available.

How to run things: always put the worktree first on the import path, e.g.
  cd {wt} && PYTHONPATH={wt}/src /venv/bin/python your_script.py
  cd {wt} && PYTHONPATH={wt}/src /venv/bin/python -m pytest -q -p no:cacheprovider -n 8 2>&1 | tail -3
(`/venv/bin/python` has the dependencies.) On the UNCHANGED worktree the suite gives exactly: 729 passed, 266 failed (the 266 failures are all Lua tests failing offline with "module 'ustring:ustring' not found", because a git submodule is empty; that is expected and not your concern).{' To run Lua (#invoke) code offline in your own demo, do this at the top of the demo script: `import wikitextprocessor.luaexec as L; L.BUILTIN_LUA_SEARCH_PATHS.append(("/tmp/luafix", []))` - /tmp/luafix holds a minimal stand-in ustring library; with it {{#invoke:...}} works (modules are pages added with ctx.add_page("Module:name", 828, lua_source, model="Scribunto")).' if lua else ''}
Basic API: `from wikitextprocessor import Wtp; ctx = Wtp(quiet=True, quiet_output=True); ctx.add_page("Template:t", 10, "body {{{{{{1}}}}}}"); ctx.start_page("Title"); ctx.expand("{{{{t|x}}}}"); ctx.parse("== a ==")`. Read the source under {wt}/src/wikitextprocessor/ and the tests under {wt}/tests/ as needed.

THE PROPERTY your change must break (this is all you are told about what is being verified):

  Title: {p['title']}
  Statement: {p['statement']}
  Quantified over: {p['quantifier']['text']}

YOUR TASK: make a small source change under {wt}/src/wikitextprocessor/ (Python or Lua files) such that
 1. the package still imports and the existing test suite gives EXACTLY the same result as before (729 passed, and the same 266 Lua tests failing) - verify this by running it;
 2. the property above is violated for some inputs / histories / schedules - a genuine behavioural break of that statement, not merely a style change;
 3. the break needs something SPECIFIC to manifest - e.g. an unusual input shape, a multi-step sequence of operations, a particular interleaving or crash point, an uncommon option combination, or two cooperating code sites that each look fine alone. It must NOT be something that any ordinary first use would expose at once (e.g. do not break every template expansion). Think of a plausible regression a maintainer could introduce in a refactoring or an "optimisation": an off-by-one at a boundary, a dropped cache invalidation, a condition narrowed or widened in one branch, a swapped argument in a rarely taken path, a missed reset of state on an error path.
 4. you write a demonstration program {wt}/_seed/demo.py that exits 0 on the UNCHANGED code and exits non-zero (with a short message saying what went wrong) on the CHANGED code. It must run in under 60 s with `cd {wt} && PYTHONPATH={wt}/src /venv/bin/python _seed/demo.py`. Verify BOTH directions yourself with `git diff -- src > /tmp/your-own-file.diff; git checkout -- src; ...; git apply /tmp/your-own-file.diff`. Do NOT use `git stash`: the stash is shared between all worktrees of the repository and other engineers are working in sibling worktrees at the same time.

Deliver, inside {wt}/_seed/ :
  - patch.diff : output of `git -C {wt} diff -- src` (the change, relative to the worktree root, applicable with `git apply`)
  - demo.py    : the demonstration
  - meta.json  : {{"property": "{pid}", "summary": "<one sentence: what you changed>", "needs": "<what specific input / sequence / schedule is needed for the break to manifest>", "files": ["..."], "ran": ["<commands you ran and their outcome>"]}}
Leave the change APPLIED in the worktree when you finish. Your final answer should be a 5-line summary of the change, how it manifests, and the test-suite result with the change applied.""")
