#!/venv/bin/python
"""Single entry point:  check.py <Cnn> --tier quick|thorough [--replay FILE]

exit 0  property held on everything explored (KNOWN-FINDING lines possible)
exit 1  VIOLATION property=<id> replay=<path> printed
exit 2  harness error (never a violation)
"""

import argparse
import importlib
import json
import os
import sys
from pathlib import Path

HERE = Path(__file__).resolve().parent
os.chdir(HERE)
sys.path.insert(0, str(HERE))

from vlib import env  # noqa: E402
from vlib.run import Run, harness_error  # noqa: E402

LEVELS = {"C11": "fault_enumeration"}


def find_module(prop):
    for p in sorted((HERE / "checks").glob(prop.lower() + "_*.py")):
        return "checks." + p.stem
    raise SystemExit(f"no check module for {prop}")


def main():
    ap = argparse.ArgumentParser()
    ap.add_argument("prop")
    ap.add_argument("--tier", default=os.environ.get("VERIF_TIER", "quick"))
    ap.add_argument("--replay")
    a = ap.parse_args()
    prop = a.prop.upper()
    tier = a.tier if a.tier in ("quick", "thorough") else "quick"
    # one scratch directory per run for every temporary database / directory
    # the package, the checks and their (possibly killed) children create;
    # removed on the way out
    import atexit
    import shutil
    import tempfile

    scratch = tempfile.mkdtemp(prefix=f"verif-{prop}-")
    os.environ["TMPDIR"] = scratch
    tempfile.tempdir = scratch
    owner = os.getpid()

    def _cleanup():
        if os.getpid() == owner:
            shutil.rmtree(scratch, ignore_errors=True)

    atexit.register(_cleanup)
    try:
        env.setup()
        mod = importlib.import_module(find_module(prop))
    except SystemExit:
        raise
    except BaseException as e:
        harness_error(f"setup/import failed: {e!r}")
    run = Run(prop, tier, LEVELS.get(prop, "exploration"))
    try:
        if a.replay:
            data = json.loads(Path(a.replay).read_text())
            mod.replay(run, data["case"])
            run.rule = "replay of " + a.replay
            if run.evaluations == 0:
                run.evaluations = 1
        else:
            # committed regression cases first
            rd = HERE / "replays" / prop
            n = 0
            if rd.is_dir() and hasattr(mod, "replay"):
                for p in sorted(rd.glob("*.json")):
                    if p.name.startswith("new-"):
                        continue
                    data = json.loads(p.read_text())
                    mod.replay(run, data["case"])
                    n += 1
            run.extra["replayed_regressions"] = n
            mod.run(run)
    except SystemExit:
        raise
    except BaseException as e:
        harness_error(f"{prop}: {e!r}")
    sys.exit(run.finish())


if __name__ == "__main__":
    main()
