"""Lua modules used by several checks (stored as Module: pages)."""

ECHO = r"""
local p = {}

local function ser(v)
  return #v .. ":" .. v
end

-- type-tagged, length-prefixed dump of a frame's arguments, sorted
local function dump_args(args)
  local out = {}
  for k, v in pairs(args) do
    local tag = type(k) == "number" and "n" or "s"
    out[#out + 1] = tag .. ser(tostring(k)) .. "=" .. ser(tostring(v))
  end
  table.sort(out)
  return "{" .. table.concat(out, ",") .. "}"
end

function p.dump(frame)
  return dump_args(frame.args)
end

function p.full(frame)
  local pf = frame:getParent()
  local s = "T" .. ser(frame:getTitle()) .. dump_args(frame.args)
  if pf then
    s = s .. "P" .. ser(pf:getTitle()) .. dump_args(pf.args)
  else
    s = s .. "P-"
  end
  return s
end

-- like full, but every argument is read three times (index, index, pairs);
-- the dump uses the LAST read and fails loudly when the reads disagree
local function reread(args)
  local out = {}
  local keys = {}
  for k, _ in pairs(args) do keys[#keys + 1] = k end
  for _, k in ipairs(keys) do
    local a = args[k]
    local b = args[k]
    if a ~= b then error("reads of argument " .. tostring(k) .. " disagree") end
    out[k] = b
  end
  for k, v in pairs(args) do
    if out[k] ~= v then error("pairs() and index disagree for " .. tostring(k)) end
  end
  return out
end

function p.full2(frame)
  local pf = frame:getParent()
  local s = "T" .. ser(frame:getTitle()) .. dump_args(reread(frame.args))
  if pf then
    s = s .. "P" .. ser(pf:getTitle()) .. dump_args(reread(pf.args))
  else
    s = s .. "P-"
  end
  return s
end

function p.f(frame)
  return "<" .. (frame.args[1] or "") .. ">"
end

function p.pp(frame)
  return frame:preprocess(frame.args[1] or "")
end

function p.ppraw(frame)
  return frame:preprocess(frame.args.text or "")
end

function p.et(frame)
  local args = {}
  for k, v in pairs(frame.args) do
    if k ~= "title" then args[k] = v end
  end
  return frame:expandTemplate{ title = frame.args.title or "tb", args = args }
end

function p.cpf(frame)
  local name = frame.args[1] or "lc"
  local a = {}
  local i = 2
  while frame.args[i] ~= nil do
    a[#a + 1] = frame.args[i]
    i = i + 1
  end
  return frame:callParserFunction(name, unpack(a))
end

function p.cpft(frame)
  local name = frame.args[1] or "lc"
  local a = {}
  local i = 2
  while frame.args[i] ~= nil do
    a[#a + 1] = frame.args[i]
    i = i + 1
  end
  return frame:callParserFunction{ name = name, args = a }
end

function p.parentarg(frame)
  local pf = frame:getParent()
  if pf == nil then return "noparent" end
  return tostring(pf.args[1]) .. "/" .. tostring(pf.args.k)
end

return p
"""

BAD = r"""
local p = {}
function p.err(frame) error("deliberate failure") end
function p.errobj(frame) error({code = 1}) end
function p.nilidx(frame) local t = nil; return t.x end
function p.loop(frame) while true do end end
function p.deep(frame)
  local function r(n) return 1 + r(n + 1) end
  return tostring(r(1))
end
function p.ret_table(frame) return {1, 2} end
function p.ret_nil(frame) return nil end
function p.ret_num(frame) return 42 end
function p.pperr(frame) return frame:preprocess("{{#invoke:bad|err}}") .. "after" end
function p.pploop(frame) return frame:preprocess("{{tloop}}") end
@@MISUSES@@
return p
"""

# frame-API calls with arguments of the wrong type / shape, or whose work
# fails inside the host: the Python side of the callback raises or reports an
# error after it has already recorded itself on the expansion path.  Each is
# available raw (cbN), caught by the module (cbNpc) and caught and followed by
# a well-formed callback (cbNok).
MISUSES = [
    "frame:expandTemplate{title = 5}",
    "frame:expandTemplate{}",
    "frame:expandTemplate{title = 'tb', args = 5}",
    "frame:expandTemplate{title = 'tb', args = {[{}] = 'x'}}",
    "frame:expandTemplate{title = {}}",
    "frame:expandTemplate{title = 'tloop'}",
    "frame:expandTemplate{title = 'terr'}",
    "frame:extensionTag('span', 'x', {5})",
    "frame:extensionTag{name = 5}",
    "frame:extensionTag()",
    "frame:extensionTag('span', {}, 'x')",
    "frame:preprocess(nil)",
    "frame:preprocess({})",
    "frame:preprocess{text = 5}",
    "frame:preprocess('{{#invoke:bad|err}}')",
    "frame:preprocess('{{#invoke:bad|cb1}}')",
    "frame:callParserFunction()",
    "frame:callParserFunction{name = 5}",
    "frame:callParserFunction('#expr', {})",
    "frame:callParserFunction('nosuchfn', 'x')",
    "frame:callParserFunction('#invoke', 'bad', 'err')",
    "frame:callParserFunction{name = '#tag', args = {5}}",
    "frame:newChild{title = 5, args = 5}:preprocess('x')",
    "frame:newChild{title = 'x', args = {[true] = 1}}:expandTemplate{title = 5}",
    "frame:getParent():expandTemplate{title = {}}",
    "frame:getArgument({})",
    "frame:argumentPairs(5)",
    "mw.title.new({})",
    "mw.title.makeTitle(5, {})",
]


def _misuse_lua():
    out = []
    for i, m in enumerate(MISUSES, 1):
        out.append(f"function p.cb{i}(frame) return tostring({m}) end")
        out.append(f"function p.cb{i}pc(frame) local ok, e = pcall(function() "
                   f"return {m} end); return 'caught' .. tostring(ok) end")
        out.append(f"function p.cb{i}ok(frame) pcall(function() return {m} "
                   f"end); return frame:expandTemplate{{title = 'tb', "
                   f"args = {{'x'}}}} end")
    return "\n".join(out)


BAD = BAD.replace("@@MISUSES@@", _misuse_lua())
MISUSE_FNS = [f"cb{i}{suf}" for i in range(1, len(MISUSES) + 1)
              for suf in ("", "pc", "ok")]


WORK = r"""
local p = {}
function p.heavy(frame)
  local s = 0
  for i = 1, 400000 do s = s + i % 7 end
  return tostring(s)
end
function p.catch(frame)
  local ok, e = pcall(error, "boom")
  local ok2, e2 = xpcall(function() error("bang") end, function(m) return "H" end)
  return tostring(ok) .. tostring(ok2) .. tostring(e2)
end
return p
"""


def install(ctx):
    ctx.add_page("Module:work", 828, WORK, model="Scribunto")
    ctx.add_page("Module:echo", 828, ECHO, model="Scribunto")
    ctx.add_page("Module:bad", 828, BAD, model="Scribunto")
