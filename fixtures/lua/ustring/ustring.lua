-- Stand-in for Scribunto's pure-Lua ustring library (the submodule directory
-- is empty in this checkout).  Byte semantics: delegates to string.  No
-- property checked by /verif depends on Unicode semantics of mw.ustring.
local ustring = {}
local names = {
    "byte", "char", "find", "format", "gmatch", "gsub", "len", "lower",
    "match", "rep", "sub", "upper", "reverse",
}
for _, n in ipairs(names) do
    ustring[n] = string[n]
end
ustring.codepoint = string.byte
ustring.gcodepoint = function(s)
    local i = 0
    return function()
        i = i + 1
        if i <= #s then return string.byte(s, i) end
    end
end
ustring.toNFC = function(s) return s end
ustring.toNFD = function(s) return s end
ustring.toNFKC = function(s) return s end
ustring.toNFKD = function(s) return s end
ustring.isutf8 = function(s) return true end
ustring.byteoffset = function(s, l, i) return l end
ustring.maxPatternLength = 10000
ustring.maxStringLength = 2048000
return ustring
