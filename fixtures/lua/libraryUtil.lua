-- Stand-in for Scribunto's libraryUtil (argument type checks only).
local libraryUtil = {}
function libraryUtil.checkType(name, argIdx, arg, expectType, nilOk)
    if arg == nil and nilOk then return end
    if type(arg) ~= expectType then
        error(string.format("bad argument #%d to '%s' (%s expected, got %s)",
            argIdx, name, expectType, type(arg)), 3)
    end
end
function libraryUtil.checkTypeMulti(name, argIdx, arg, expectTypes)
    local t = type(arg)
    for _, e in ipairs(expectTypes) do
        if t == e then return end
    end
    error(string.format("bad argument #%d to '%s'", argIdx, name), 3)
end
function libraryUtil.checkTypeForIndex(index, value, expectType)
    if type(value) ~= expectType then
        error(string.format("value for index '%s' must be %s", tostring(index), expectType), 3)
    end
end
function libraryUtil.checkTypeForNamedArg(name, argName, arg, expectType, nilOk)
    if arg == nil and nilOk then return end
    if type(arg) ~= expectType then
        error(string.format("bad named argument %s to '%s'", argName, name), 3)
    end
end
function libraryUtil.makeCheckSelfFunction(libraryName, varName, selfObj, selfObjDesc)
    return function(self, method) end
end
return libraryUtil
