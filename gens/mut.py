"""G-mut: mutations of real pages (DESIGN 3).  Seeds are read at run time from
the repository's tests directory (text files and the string literals of
tests/test_parser.py); a small fallback list is used if none can be read."""

import ast
import re
from functools import lru_cache

from hypothesis import strategies as st

from vlib import env

from . import soup

_SPLIT = re.compile(r"(\{\{+|\}\}+|\[\[|\]\]|\n|\||'{2,}|<[^<>\n]{0,40}>|=+|\s+)")


@lru_cache(maxsize=1)
def seeds():
    out = []
    tests = env.REPO / "tests"
    for name in ("animal.txt", "Babel.txt", "fi-gradation.txt"):
        p = tests / name
        try:
            t = p.read_text(encoding="utf-8")
        except OSError:
            continue
        # pages are large: cut into paragraph-sized seeds
        chunks = re.split(r"\n(?==)", t)
        for c in chunks:
            if 0 < len(c) <= 3000:
                out.append(c)
            elif c:
                out.append(c[:3000])
    try:
        tree = ast.parse((tests / "test_parser.py").read_text(encoding="utf-8"))
        for node in ast.walk(tree):
            if isinstance(node, ast.Constant) and isinstance(node.value, str):
                s = node.value
                if 3 <= len(s) <= 2000 and any(c in s for c in "{[<'=|*#"):
                    out.append(s)
    except (OSError, SyntaxError):
        pass
    if not out:
        out = ["== A ==\n* b\n{| class=x\n|-\n| c || d\n|}\n{{t|[[l]]}}"]
    # placeholder-range characters never occur on pages (documented)
    out = [s for s in out if not any(0x10203D <= ord(c) <= 0x10FFF0 for c in s)]
    return tuple(dict.fromkeys(out))


def _tokens(s):
    return [t for t in _SPLIT.split(s) if t]


def mutated():
    ss = seeds()
    seed = st.sampled_from(ss)

    def apply(t):
        a, b, ops = t
        toks = _tokens(a)
        for op, i, j, tok in ops:
            n = len(toks)
            if n == 0:
                toks = [tok]
                continue
            i %= n
            j = i + (j % 8)
            if op == 0:
                del toks[i:j]
            elif op == 1:
                toks[i:i] = toks[i:j]
            elif op == 2:
                k = (i * 7 + 3) % n
                toks[i], toks[k] = toks[k], toks[i]
            elif op == 3:
                tb = _tokens(b)
                toks = toks[:i] + tb[(j % max(1, len(tb))):]
            elif op == 4:
                toks = toks[:i]
            else:
                toks.insert(i, tok)
        return "".join(toks)

    op = st.tuples(st.integers(0, 5), st.integers(0, 10_000),
                   st.integers(0, 50), soup.token())
    return st.tuples(seed, seed, st.lists(op, min_size=1, max_size=6)).map(apply)
