"""G-soup: token soups over the full wikitext token alphabet (DESIGN 3).

Excluded by construction: code points U+10203D..U+10FFF0 (common.py documents
that the package assumes they never occur on pages)."""

from hypothesis import strategies as st

HTML_TAGS = [
    "a", "abbr", "b", "big", "blockquote", "br", "caption", "center", "code",
    "dd", "del", "div", "dl", "dt", "em", "font", "gallery", "h2", "hr", "i",
    "includeonly", "li", "math", "noinclude", "ol", "onlyinclude", "p", "q",
    "rb", "ref", "references", "rp", "rt", "rtc", "ruby", "s", "small",
    "span", "strong", "sub", "sup", "table", "tbody", "td", "templatestyles",
    "th", "thead", "tr", "tt", "u", "ul", "var", "wbr",
]
SPECIAL_TAGS = ["pre", "nowiki", "section", "unknowntag", "gu", "1", "x-y"]

MAGIC_WORDS = [
    "__NOTOC__", "__FORCETOC__", "__TOC__", "__NOEDITSECTION__",
    "__NEWSECTIONLINK__", "__NONEWSECTIONLINK__", "__NOGALLERY__",
    "__HIDDENCAT__", "__EXPECTUNUSEDCATEGORY__", "__NOCONTENTCONVERT__",
    "__NOCC__", "__NOTITLECONVERT__", "__NOTC__", "__START__", "__END__",
    "__INDEX__", "__NOINDEX__", "__STATICREDIRECT__", "__NOGLOBAL__",
    "__DISAMBIG__",
]

ATTRS = [
    "", ' class="a"', " id=x", " style='b c'", ' a="1" b=2', " x", ' q="',
    " a=\"it's\"", " a='q\"r'", ' data-x="y|z"', " lang=fi", ' a = "b" ',
    "\nclass=n", ' class="{{t}}"', ' title="[[a|b]]"', ' id="x<nowiki/> "',
    " a={{{1}}}", ' b="[x]"', ' c="<nowiki>n</nowiki>"', " d=[http://x.y z]",
]

STRUCT = [
    "''", "'''", "'''''", "''''", "'", "\n", "\n\n", "\n\n\n", "{|", "{||",
    "|}", "|+", "|-", "!", "!!", "|", "||", "----", "-----", "*", "#", ":",
    ";", "**", "*#", "#:", ";:", ":*", "*:", "##", "*#:;", "=", "==", "===",
    "====", "=====", "======", "=======", "{{", "}}", "{{{", "}}}", "[[", "]]",
    "[", "]", "-{", "}-", "-{}-", "<!--", "-->", "<<x>>", "<<>>", "<1>", "<",
    ">", "&amp;", "&lt;", "&#91;", "&nbsp;", "&", " ", "  ", "\t", " \n",
    "http://x.org", "https://a.b/c?d=e", " https://x.y/z.", "http://",
    "[http://x.org t]", "[//x.org]", "[mailto:a@b c]", "//x", "ftp://h/p",
    "#if:", "#ifeq:", "#switch:", "#invoke:", "#expr:", "#tag:", "PAGENAME",
    "lc:", "subst:", "#", "!=", "=a", "a=", "1=", "|a=b", "|1=",
]

# composite tokens: short well-formed shapes that random single tokens almost
# never assemble (an argument that is exactly one placeholder-bearing token,
# empty nowiki spans, bracketed non-URL text, ...)
COMPOSITE = [
    "[x]", "[foo bar]", "[1]", "<nowiki/>", "<nowiki />", "<nowiki></nowiki>",
    "<nowiki>[[a]]</nowiki>", "{{t|", "{{t|[x]|y}}", "|[x]|", "|<nowiki/>|",
    "{{#if:", "{{#if:[x]|a|b}}", "[[a|", "[[a|[x]|c]]", "{{{p|", "{{{[x]|b}}}",
    "{{t|<nowiki/>|y}}", "{{t||}}", "{{#if:|1=x}}", "{{t||1=x}}", "{{t|a=[x]|b}}", "[[a]]b", "[[a|b]]c",
    "{{!}}", "{{=}}", "{{t|{{{1}}}}}", "{{{1|{{t}}}}}", "[http://x.org [x]]",
    "[[File:a.png|thumb|[x]]]", "''" + "'[x]'" + "''", "<span>[x]</span>",
    "|-\n|[x]", ";a:b", ";a\n:b", "*[x]", "= [x] =", "{|\n|+[x]\n|}",
]

TEXT = [
    "a", "b", "foo", "Bar", "x y", "1", "12", "é", "ß", "日本", "שלום", "ا",
    "á", "‏", " ", ".", ",", ";x", "-", "_", "\\", "/", "\"",
    "word ", " word", "T", "t1", "Q", "\x7f", "﻿", "𐍈", "\U0001F600",
]


def _tags():
    out = []
    for t in HTML_TAGS + SPECIAL_TAGS:
        out.append(f"<{t}>")
        out.append(f"</{t}>")
        out.append(f"<{t}/>")
        out.append(f"<{t} />")
    return out


TAGS = _tags()


def _tag_variants():
    """Near-tags: blanks, newlines, slashes and case in every position of a
    start / end / self-closing tag.  The tokenizer's tag pattern and the
    patterns tag_fn() re-parses the token with must agree on each of them."""
    out = []
    for t in ("b", "div", "span", "br", "pre", "nowiki", "ref", "li", "td",
              "table", "math", "hr"):
        out += [f"</ {t}>", f"</\t{t}>", f"< {t}>", f"<{t} >", f"</{t} >",
                f"</{t}\n>", f"<{t}\n>", f"<{t}/ >", f"< /{t}>", f"<{t}",
                f"</{t}", f"<{t.upper()}>", f"</{t.upper()}>", f"<{t}//>",
                f"</{t}/>", f"</{t} x>", f"<{t} / >", f"<{t}\t/>", f"<-{t}>",
                f"</-{t}>", f"</{t}1>", f"<{t}:x>"]
    return out


TAG_VARIANTS = _tag_variants()


def tag_with_attrs():
    return st.builds(
        lambda t, a, sl: f"<{t}{a}{sl}>",
        st.sampled_from(HTML_TAGS + SPECIAL_TAGS),
        st.sampled_from(ATTRS),
        st.sampled_from(["", "", "/", " /"]),
    )


def token():
    return st.one_of(
        st.sampled_from(STRUCT),
        st.sampled_from(STRUCT),
        st.sampled_from(TEXT),
        st.sampled_from(TAGS),
        st.sampled_from(TAG_VARIANTS),
        st.sampled_from(COMPOSITE),
        tag_with_attrs(),
        st.sampled_from(MAGIC_WORDS),
    )


def soup(max_tokens=40):
    return st.lists(token(), min_size=0, max_size=max_tokens).map("".join)


# classes of structural tokens, for the non-triviality rule
CLASSES = {
    "quote": ["''"],
    "table": ["{|", "|}", "|-", "|+", "!!", "||"],
    "list": ["\n*", "\n#", "\n:", "\n;"],
    "heading": ["=="],
    "template": ["{{", "}}"],
    "link": ["[[", "]]"],
    "html": ["</", "/>"],
    "extlink": ["http", "[//", "mailto:"],
    "comment": ["<!--"],
    "magic": ["__"],
    "hline": ["----"],
    "pre": ["<pre", "\n "],
}


def struct_classes(text: str):
    t = "\n" + text
    return sorted(k for k, pats in CLASSES.items() if any(p in t for p in pats))
