"""G-exp: expansion AST, its renderer, and template libraries (DESIGN 3).

AST nodes are JSON-friendly lists:
  ["T", text]                          plain text atom
  ["N", text]                          <nowiki>text</nowiki>
  ["L", [seq, ...]]                    [[a|b]]
  ["P", name, default_seq_or_None]     {{{name|default}}}
  ["C", name, [arg, ...]]              {{name|...}}
        arg = ["pos", seq] | ["named", key, seq, [p1, p2, p3, p4]]
  ["IF", c, t, e_or_None]
  ["IFEQ", a, b, t, e_or_None]
  ["SW", v, [case, ...], tail]         case = ["case", key, seq] | ["bare", key]
        tail = None | ["default", seq] | ["last", seq]
  ["INV", module, fn, [arg, ...]]      {{#invoke:module|fn|...}}  (Lua props)
A seq is a list of nodes.

Atoms never contain { } [ ] | = < > & and never end in a newline, so the
rendering is unambiguous and a reference interpreter needs no parser."""

import functools

from hypothesis import strategies as st

WORDS = ["a", "b", "x", "yz", "foo", "Bar", "1", "2", "10", "é", "q r"]
BLANKS = [" ", "  ", "\n", "\t", " \n ", "\n\n"]
PUNCT = [".", ",", "-", "!", "(", ")", "/", "%", "+", "?", "~", "^", "$", "@",
         "_", "\\", "\"", "'"]
MARKERS = ["*", "#", ":", ";", "**", "#:"]
TEMPLATE_NAMES = ["ta", "tb", "Tc", "t d", "te"]
MISSING_NAMES = ["nope", "Zz top"]
PARAM_NAMES = ["1", "2", "3", "k", "n m", "key"]
PADS = ["", "", " ", "\n", "  ", " \n"]
# names of named arguments: plain, positive numeric (integer keys), and the
# numeric look-alikes that stay strings (zero, zero-padded zero, negative)
ARG_KEYS = ["k", "key", "n m", "1", "2", "3", "k", "1", "0", "00", "02", "-1"]


def _mk_atom(parts):
    s = "".join(parts).rstrip("\n")
    return s if s else "a"


def atom():
    piece = st.one_of(
        st.sampled_from(WORDS), st.sampled_from(WORDS),
        st.sampled_from(BLANKS), st.sampled_from(PUNCT),
    )
    return st.lists(piece, min_size=1, max_size=4).map(_mk_atom)


def marker_atom():
    return st.tuples(st.sampled_from(MARKERS), st.sampled_from(WORDS)).map(
        lambda t: t[0] + " " + t[1]
    )


def text_node():
    return st.one_of(atom(), atom(), atom(), marker_atom()).map(
        lambda s: ["T", s]
    )


def seq_strategy(callable_names, depth, in_template, invoke=None,
                 max_items=3, pfn=True, links=True, nowiki=True, pads=None):
    return _seq_strategy(tuple(callable_names), depth, in_template, invoke,
                         max_items, pfn, links, nowiki,
                         tuple(pads) if pads else None)


@functools.lru_cache(maxsize=None)
def _seq_strategy(callable_names, depth, in_template, invoke, max_items, pfn,
                  links, nowiki=True, padset=None):
    """Strategy for a seq whose calls go only to callable_names (plus missing
    names).  depth bounds construct nesting."""
    if depth <= 0:
        return st.lists(text_node(), min_size=0, max_size=2)
    sub = seq_strategy(callable_names, depth - 1, in_template, invoke,
                       max_items=2, pfn=pfn, links=links, nowiki=nowiki,
                       pads=padset)
    opt_sub = st.none() | sub
    items = [text_node(), text_node()]
    if in_template:
        items.append(
            st.tuples(st.sampled_from(PARAM_NAMES), opt_sub).map(
                lambda t: ["P", t[0], t[1]]
            )
        )
        items.append(
            st.tuples(st.sampled_from(PARAM_NAMES), st.none()).map(
                lambda t: ["P", t[0], t[1]]
            )
        )
    else:
        items.append(
            st.tuples(st.sampled_from(PARAM_NAMES), opt_sub).map(
                lambda t: ["P", t[0], t[1]]
            )
        )
    names = list(callable_names) + MISSING_NAMES[:1]
    pads = st.lists(st.sampled_from(list(padset) if padset else PADS),
                    min_size=4, max_size=4)
    arg = st.one_of(
        sub.map(lambda s: ["pos", s]),
        sub.map(lambda s: ["pos", s]),
        st.tuples(st.sampled_from(["k", "key", "n m", "1", "2", "3"]), sub,
                  pads).map(lambda t: ["named", t[0], t[1], t[2]]),
    )
    if names:
        call = st.tuples(st.sampled_from(names),
                         st.lists(arg, max_size=4)).map(
            lambda t: ["C", t[0], t[1]]
        )
        items += [call, call, call, call]
    if pfn:
        items.append(st.tuples(sub, sub, opt_sub).map(
            lambda t: ["IF", t[0], t[1], t[2]]))
        items.append(st.tuples(sub, sub, sub, opt_sub).map(
            lambda t: ["IFEQ", t[0], t[1], t[2], t[3]]))
        case = st.one_of(
            st.tuples(st.sampled_from(WORDS), sub).map(
                lambda t: ["case", t[0], t[1]]),
            st.sampled_from(WORDS).map(lambda k: ["bare", k]),
        )
        tail = st.one_of(
            st.none(),
            sub.map(lambda s: ["default", s]),
            sub.map(lambda s: ["last", s]),
        )
        items.append(
            st.tuples(st.one_of(st.sampled_from(WORDS).map(
                lambda w: [["T", w]]), sub),
                st.lists(case, max_size=4), tail).map(
                lambda t: ["SW", t[0], t[1], t[2]])
        )
    if nowiki:
        items.append(atom().map(lambda s: ["N", s + "{{x|y}}[[z]]"]))
    # links: every part starts with a word (empty [[ ]] links are escaped on
    # purpose by the package and are not part of the transclusion rules)
    # the target is a single word (no newline: MediaWiki does not accept one
    # before the pipe); the label contains no further link.
    if links:
        nolink = seq_strategy(callable_names, depth - 1, in_template, invoke,
                              max_items=2, pfn=pfn, links=False,
                              nowiki=nowiki, pads=padset)
        target = st.sampled_from(WORDS).map(lambda w: [["T", w]])
        label = st.tuples(st.sampled_from(WORDS), nolink).map(
            lambda t: [["T", t[0]]] + list(t[1]))
        items.append(st.one_of(
            target.map(lambda t: ["L", [t]]),
            st.tuples(target, label).map(lambda t: ["L", [t[0], t[1]]]),
        ))
    if invoke is not None:
        items.append(invoke(sub))
    return st.lists(st.one_of(*items), min_size=0, max_size=max_items)


# ------------------------------------------------------------- rendering


def render(seq):
    return "".join(render_node(n) for n in seq)


def render_node(n):
    k = n[0]
    if k == "T":
        return n[1]
    if k == "N":
        return "<nowiki>" + n[1] + "</nowiki>"
    if k == "L":
        return "[[" + "|".join(render(s) for s in n[1]) + "]]"
    if k == "P":
        if n[2] is None:
            return "{{{" + n[1] + "}}}"
        return "{{{" + n[1] + "|" + render(n[2]) + "}}}"
    if k == "C":
        name = n[1] if isinstance(n[1], str) else render(n[1])
        return "{{" + "|".join([name] + [render_arg(a) for a in n[2]]) + "}}"
    if k == "IF":
        parts = [render(n[1]), render(n[2])]
        if n[3] is not None:
            parts.append(render(n[3]))
        return "{{#if:" + "|".join(parts) + "}}"
    if k == "IFEQ":
        parts = [render(n[1]), render(n[2]), render(n[3])]
        if n[4] is not None:
            parts.append(render(n[4]))
        return "{{#ifeq:" + "|".join(parts) + "}}"
    if k == "SW":
        parts = [render(n[1])]
        for c in n[2]:
            if c[0] == "case":
                parts.append(c[1] + "=" + render(c[2]))
            else:
                parts.append(c[1])
        if n[3] is not None:
            if n[3][0] == "default":
                parts.append("#default=" + render(n[3][1]))
            else:
                parts.append(render(n[3][1]))
        return "{{#switch:" + "|".join(parts) + "}}"
    if k == "INV":
        return "{{#invoke:" + "|".join(
            [n[1], n[2]] + [render_arg(a) for a in n[3]]) + "}}"
    raise ValueError(k)


def render_arg(a):
    if a[0] == "pos":
        return render(a[1])
    p = a[3]
    return p[0] + a[1] + p[1] + "=" + p[2] + render(a[2]) + p[3]


# ------------------------------------------------------------- libraries

WRAPPERS = [
    "plain", "noinclude-after", "noinclude-before", "noinclude-mid",
    "includeonly", "onlyinclude", "onlyinclude-two", "comment", "comment-mid",
    "noinclude-unclosed", "includeonly-partial",
]
JUNK = ["junk", "doc text\nmore", " J ", "{{nope}}", "* list"]


def wrap_body(seq, wrapper, junk):
    """Stored page text whose includable part is exactly render(seq)."""
    body = render(seq)
    half = len(seq) // 2
    b1, b2 = render(seq[:half]), render(seq[half:])
    if wrapper == "plain":
        return body
    if wrapper == "noinclude-after":
        return body + "<noinclude>" + junk + "</noinclude>"
    if wrapper == "noinclude-before":
        return "<noinclude>" + junk + "</noinclude>" + body
    if wrapper == "noinclude-mid":
        return b1 + "<noinclude >" + junk + "</noinclude>" + b2
    if wrapper == "includeonly":
        return "<includeonly>" + body + "</includeonly>"
    if wrapper == "includeonly-partial":
        return b1 + "<includeonly>" + b2 + "</includeonly>"
    if wrapper == "onlyinclude":
        return junk + "<onlyinclude>" + body + "</onlyinclude>" + junk
    if wrapper == "onlyinclude-two":
        return (junk + "<onlyinclude>" + b1 + "</onlyinclude>" + junk
                + "<onlyinclude>" + b2 + "</onlyinclude>")
    if wrapper == "comment":
        return body + "<!-- " + junk + " -->"
    if wrapper == "comment-mid":
        return b1 + "<!--" + junk + "\n-->" + b2
    if wrapper == "noinclude-unclosed":
        return body + "<noinclude>" + junk
    raise ValueError(wrapper)


def library(n_max=5, depth=3, dag=True, invoke=None, pfn=True, nowiki=True,
            pads=None):
    """Strategy for {name: {"body": seq, "wrapper": w, "junk": j}}.  With
    dag=True template i calls only templates j > i.  A drawn count truncates
    the library, so calls to the dropped names exercise missing templates."""
    return _library(n_max, depth, dag, invoke, pfn, nowiki,
                    tuple(pads) if pads else None)


def _arglist(names, in_template, nowiki=True, padset=None, pfn=True):
    sub = seq_strategy(names, 1, in_template, None, max_items=2,
                       nowiki=nowiki, pads=padset, pfn=pfn)
    pads = st.lists(st.sampled_from(list(padset) if padset else PADS),
                    min_size=4, max_size=4)
    arg = st.one_of(
        sub.map(lambda s: ["pos", s]),
        st.tuples(st.sampled_from(ARG_KEYS), sub,
                  pads).map(lambda t: ["named", t[0], t[1], t[2]]),
    )
    return st.lists(arg, max_size=3)


@functools.lru_cache(maxsize=None)
def _library(n_max, depth, dag, invoke, pfn, nowiki=True, padset=None):
    names = TEMPLATE_NAMES[:n_max]
    entries = []
    for i, nm in enumerate(names):
        callees = names[i + 1:] if dag else names
        body = seq_strategy(callees, depth - 1, True, invoke, pfn=pfn,
                            max_items=4, nowiki=nowiki, pads=padset)
        first = st.none() | st.sampled_from(["{| x", "* s", ": c", "#n", ";d"])
        # chain link: with probability 1/2 the body also calls the next
        # template, so that nesting depth >= 2 is common, not accidental
        chain = st.none() | _arglist(callees[1:], True, nowiki, padset, pfn)
        entries.append(
            st.tuples(st.just(nm), body, first, st.sampled_from(WRAPPERS),
                      st.sampled_from(JUNK), chain, st.integers(0, 4))
        )
    return st.tuples(st.integers(1, n_max), *entries).map(_mk_lib)


def _mk_lib(t):
    n, entries = t[0], t[1:]
    lib = {}
    kept = entries[len(entries) - n:]
    # keep the LAST n names so that the call DAG stays inside the library
    for idx, (nm, body, first, wrapper, junk, chain, pos) in enumerate(kept):
        body = list(body)
        if chain is not None and idx + 1 < len(kept):
            pos = min(pos, len(body))
            body.insert(pos, ["C", kept[idx + 1][0], chain])
        if first is not None:
            body = [["T", first]] + body
        lib[nm] = {"body": body, "wrapper": wrapper, "junk": junk}
    return lib


def case_strategy(depth=4, n_max=5, dag=True, invoke=None, pfn=True,
                  nowiki=True, pads=None):
    """(library, page seq)."""
    names = TEMPLATE_NAMES[:n_max]
    page = seq_strategy(names, depth - 1, False, invoke, max_items=4, pfn=pfn,
                        nowiki=nowiki, pads=pads)
    entry = st.none() | _arglist((), False, nowiki,
                                 tuple(pads) if pads else None, pfn)

    def mk(t):
        lib, page, ent = t
        page = list(page)
        if ent is not None:
            page.append(["C", next(iter(lib)), ent])
        return lib, page

    return st.tuples(library(n_max, depth - 1, dag, invoke, pfn, nowiki, pads),
                     page, entry).map(mk)


def install(ctx, lib, flags=None):
    """Stores a library through the real add_page (and so through the real
    inclusion-control extraction)."""
    flags = flags or {}
    for nm, ent in lib.items():
        ctx.add_page("Template:" + nm, 10,
                     wrap_body(ent["body"], ent["wrapper"], ent["junk"]),
                     need_pre_expand=bool(flags.get(nm)))
