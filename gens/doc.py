"""G-doc: structured documents from a block / inline grammar (DESIGN 3).
Rendered to text by this module; URL-safe attribute values only."""

from hypothesis import strategies as st

WORDS = ["alpha", "beta", "Gamma", "x1", "käse", "日本語", "de lta", "e", "Z9"]
ATTR_NAMES = ["class", "id", "style", "lang", "title", "data-x"]
ATTR_VALUES = ["a", "b1", "x-y", "k_2", "9", "foo.bar", "A~z"]
PAIRED_INLINE_TAGS = ["span", "b", "i", "em", "strong", "small", "sub", "sup",
                      "u", "s", "code", "tt", "var", "big", "cite", "q"]
BLOCK_TAGS = ["div", "blockquote", "center"]
TEMPLATE_NAMES = ["tpl", "foo bar", "T1", "m", "l"]
PFNS = ["#if", "#ifeq", "#switch", "lc", "uc", "#expr", "PAGENAME", "#len"]

word = st.sampled_from(WORDS)


def attrs(max_n=3):
    pair = st.tuples(st.sampled_from(ATTR_NAMES), st.sampled_from(ATTR_VALUES))
    return st.lists(pair, max_size=max_n, unique_by=lambda p: p[0])


def render_attrs(pairs, style=0):
    out = []
    for i, (k, v) in enumerate(pairs):
        q = (style + i) % 3
        if q == 0:
            out.append(f'{k}="{v}"')
        elif q == 1:
            out.append(f"{k}='{v}'")
        else:
            out.append(f"{k}={v}")
    return " ".join(out)


def _join_words(ws):
    return " ".join(ws)


plain = st.lists(word, min_size=1, max_size=3).map(_join_words)


LEAVES = ["[x]", "[foo bar]", "<nowiki/>", "<nowiki></nowiki>", "&amp;",
          "__NOTOC__", "http://x.org/p", "<br/>", "-{a}-"]


def inline(depth=3):
    base = st.one_of(plain, plain, plain, st.sampled_from(LEAVES))

    def extend(children):
        seq = st.lists(children, min_size=1, max_size=3).map(" ".join)
        args = st.lists(
            st.one_of(
                seq,
                st.tuples(st.sampled_from(["k", "n1", "2", "a b"]), seq).map(
                    lambda kv: f"{kv[0]}={kv[1]}"
                ),
            ),
            max_size=3,
        )
        return st.one_of(
            seq.map(lambda s: f"'''{s}'''"),
            seq.map(lambda s: f"''{s}''"),
            st.tuples(word, st.none() | seq).map(
                lambda t: f"[[{t[0]}]]" if t[1] is None else f"[[{t[0]}|{t[1]}]]"
            ),
            st.tuples(st.sampled_from(["http://x.org/a", "https://e.f/g_h"]),
                      st.none() | plain).map(
                lambda t: f"[{t[0]}]" if t[1] is None else f"[{t[0]} {t[1]}]"
            ),
            st.tuples(st.sampled_from(TEMPLATE_NAMES), args).map(
                lambda t: "{{" + "|".join([t[0]] + t[1]) + "}}"
            ),
            st.tuples(st.sampled_from(PFNS), st.lists(seq, max_size=3)).map(
                lambda t: "{{" + t[0]
                + ((":" + "|".join(t[1])) if t[1] else "")
                + "}}"
            ),
            st.tuples(st.sampled_from(["1", "p", "a b"]), st.none() | seq).map(
                lambda t: "{{{" + t[0] + ("" if t[1] is None else "|" + t[1]) + "}}}"
            ),
            st.tuples(st.sampled_from(PAIRED_INLINE_TAGS), attrs(), seq,
                      st.integers(0, 2)).map(
                lambda t: f"<{t[0]}"
                + ((" " + render_attrs(t[1], t[3])) if t[1] else "")
                + f">{t[2]}</{t[0]}>"
            ),
            plain.map(lambda s: f"<nowiki>{s} [[x]] {{{{y}}}}</nowiki>"),
            plain.map(lambda s: f"<!-- {s} -->"),
            st.just("<br>"),
        )

    return st.recursive(base, extend, max_leaves=6 if depth >= 3 else 3)


def list_block(inl):
    marker = st.text(alphabet="*#", min_size=1, max_size=4)
    line = st.tuples(marker, inl).map(lambda t: f"{t[0]} {t[1]}")
    return st.lists(line, min_size=1, max_size=5).map("\n".join)


def deflist_block(inl):
    marker = st.sampled_from([":", ";", "::", "*:", "#:", ":;"])
    line = st.tuples(marker, inl).map(lambda t: f"{t[0]} {t[1]}")
    return st.lists(line, min_size=1, max_size=3).map("\n".join)


def table_block(inl):
    cell = st.tuples(st.booleans(), attrs(2), inl)
    row = st.tuples(attrs(2), st.lists(cell, min_size=1, max_size=3),
                    st.booleans())

    def render(t):
        tattrs, caption, rows, style = t
        out = ["{|" + ((" " + render_attrs(tattrs, style)) if tattrs else "")]
        if caption is not None:
            cattrs, ctext = caption
            out.append("|+"
                       + ((" " + render_attrs(cattrs, style) + " |") if cattrs
                          else "")
                       + " " + ctext)
        for rattrs, cells, oneline in rows:
            out.append("|-" + ((" " + render_attrs(rattrs, style)) if rattrs
                               else ""))
            if oneline:
                hdr = cells[0][0]
                sep = "!!" if hdr else "||"
                first = "!" if hdr else "|"
                parts = []
                for _, cattrs, ctext in cells:
                    parts.append(
                        ((render_attrs(cattrs, style) + " | ") if cattrs else "")
                        + ctext
                    )
                out.append(first + " " + f" {sep} ".join(parts))
            else:
                for hdr, cattrs, ctext in cells:
                    m = "!" if hdr else "|"
                    out.append(
                        m
                        + ((" " + render_attrs(cattrs, style) + " |") if cattrs
                           else "")
                        + " " + ctext
                    )
        out.append("|}")
        return "\n".join(out)

    return st.tuples(
        attrs(2),
        st.none() | st.tuples(attrs(1), inl),
        st.lists(row, min_size=1, max_size=3),
        st.integers(0, 2),
    ).map(render)


def block(depth=3):
    inl = inline(depth)
    heading = st.tuples(st.integers(1, 6), inl).map(
        lambda t: "=" * t[0] + " " + t[1] + " " + "=" * t[0]
    )
    para = st.lists(inl, min_size=1, max_size=3).map("\n".join)
    pre = plain.map(lambda s: " " + s)
    pretag = plain.map(lambda s: f"<pre>{s}\n== not ==\n* x</pre>")
    hr = st.just("----")
    blocktag = st.tuples(st.sampled_from(BLOCK_TAGS), attrs(), inl).map(
        lambda t: f"<{t[0]}"
        + ((" " + render_attrs(t[1])) if t[1] else "")
        + f">\n{t[2]}\n</{t[0]}>"
    )
    magic = st.sampled_from(["__NOTOC__", "__TOC__"])
    return st.one_of(
        heading, heading, para, list_block(inl), list_block(inl),
        deflist_block(inl), table_block(inl), pre, pretag, hr, blocktag, magic,
    )


def document(depth=3, max_blocks=8):
    sep = st.sampled_from(["\n", "\n\n"])
    return st.lists(st.tuples(block(depth), sep), min_size=1,
                    max_size=max_blocks).map(
        lambda bs: "".join(b + s for b, s in bs)
    )


def deep_nest(max_depth=100):
    """Markup nested to a drawn depth (templates, links, tables, html,
    bold/italic)."""
    opener = st.sampled_from([
        ("{{t|", "}}"), ("{{#if:x|", "}}"), ("[[a|", "]]"), ("<span>", "</span>"),
        ("<div>", "</div>"), ("'''", "'''"), ("''", "''"),
        ("\n{|\n|", "\n|}\n"), ("{{{p|", "}}}"), ("<ref>", "</ref>"),
        ("\n* ", "\n"), ("[http://x.y ", "]"), ("<b>", ""), ("{{", ""),
    ])
    return st.tuples(
        st.lists(opener, min_size=1, max_size=6),
        st.integers(5, max_depth),
        plain,
    ).map(_render_nest)


def _render_nest(t):
    pats, d, core = t
    opens, closes = [], []
    for i in range(d):
        o, c = pats[i % len(pats)]
        opens.append(o)
        closes.append(c)
    return "".join(opens) + core + "".join(reversed(closes))


# ------------------------------------------------------------------ C19
# The structured grammar of the round-trip property: sections, * / # lists,
# tables, bold / italic, links, templates, parser functions and HTML elements
# with URL-safe attribute values.


def rt_inline(depth=3):
    """Balanced inline markup: bold may contain italic (never bold), italic
    contains neither; quote runs of different constructs are never adjacent
    except as the regular bold-italic nesting."""
    targ = st.one_of(
        plain,
        st.tuples(st.sampled_from(["k", "n1", "2"]), plain).map(
            lambda kv: f"{kv[0]}={kv[1]}"),
        st.tuples(word, plain).map(lambda t: f"[[{t[0]}|{t[1]}]]"),
        st.tuples(st.sampled_from(TEMPLATE_NAMES), plain).map(
            lambda t: "{{" + t[0] + "|" + t[1] + "}}"),
    )
    # arguments may be empty ({{t||x}}, {{#if:|}}, {{lc:}}): an empty
    # argument is still an argument
    targ_e = st.one_of(targ, targ, targ, st.just(""))
    template = st.tuples(st.sampled_from(TEMPLATE_NAMES),
                         st.lists(targ_e, max_size=3)).map(
        lambda t: "{{" + "|".join([t[0]] + t[1]) + "}}")
    pfn = st.tuples(st.sampled_from(["#if", "#ifeq", "lc", "#expr",
                                     "#switch"]),
                    st.lists(targ_e, min_size=1, max_size=3)).map(
        lambda t: "{{" + t[0] + ":" + "|".join(t[1]) + "}}")
    span = st.tuples(st.sampled_from(PAIRED_INLINE_TAGS), attrs(), plain,
                     st.integers(0, 2)).map(
        lambda t: f"<{t[0]}"
        + ((" " + render_attrs(t[1], t[3])) if t[1] else "")
        + f">{t[2]}</{t[0]}>")
    # a link trail ([[dog]]s, [[a|b]]ing) is part of the LINK node
    trail = st.sampled_from(["", "", "s", "ing", "és", "S"])
    link_plain = st.tuples(word, st.lists(plain, max_size=3), trail).map(
        lambda t: "[[" + "|".join([t[0]] + t[1]) + "]]" + t[2])
    magic = st.sampled_from(["{{PAGENAME}}", "{{NAMESPACE}}", "{{!}}"])
    empty_el = st.tuples(st.sampled_from(["span", "div", "br", "td"]),
                         attrs(2)).map(
        lambda t: f"<{t[0]}"
        + ((" " + render_attrs(t[1])) if t[1] else "")
        + (">" if t[0] == "br" else f"></{t[0]}>"))
    l0 = st.one_of(plain, plain, template, pfn, span, link_plain, magic,
                   empty_el)

    def seq(item):
        return st.lists(item, min_size=1, max_size=3).map(" ".join)

    italic = seq(l0).map(lambda s: f"''{s}''")
    bold = seq(st.one_of(l0, l0, italic)).map(lambda s: f"'''{s}'''")
    link_fancy = st.tuples(word, seq(st.one_of(plain, template)), trail).map(
        lambda t: f"[[{t[0]}|''{t[1]}'']]{t[2]}")
    span_fancy = st.tuples(st.sampled_from(PAIRED_INLINE_TAGS), attrs(),
                           seq(st.one_of(l0, italic, bold))).map(
        lambda t: f"<{t[0]}"
        + ((" " + render_attrs(t[1])) if t[1] else "") + f">{t[2]}</{t[0]}>")
    return seq(st.one_of(l0, l0, italic, bold, link_fancy, span_fancy))


def rt_block(depth=3):
    inl = rt_inline(depth)
    heading = st.tuples(st.integers(1, 6), inl).map(
        lambda t: "=" * t[0] + " " + t[1] + " " + "=" * t[0]
    )
    para = st.lists(inl, min_size=1, max_size=3).map("\n".join)
    blocktag = st.tuples(st.sampled_from(BLOCK_TAGS), attrs(), inl).map(
        lambda t: f"<{t[0]}"
        + ((" " + render_attrs(t[1])) if t[1] else "")
        + f">{t[2]}</{t[0]}>"
    )
    return st.one_of(heading, heading, para, list_block(inl), list_block(inl),
                     table_block(inl), blocktag)


def rt_document(depth=3, max_blocks=7):
    sep = st.sampled_from(["\n", "\n\n"])
    return st.lists(st.tuples(rt_block(depth), sep), min_size=1,
                    max_size=max_blocks).map(
        lambda bs: "".join(b + s for b, s in bs)
    )
