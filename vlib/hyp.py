"""Hypothesis plumbing: seeded, database-less, collect-then-shrink with a
shrink budget (DESIGN 2.3, 2.6)."""

import time

import hypothesis
from hypothesis import HealthCheck, Phase, Verbosity, given, settings
from hypothesis import seed as hseed


class Found(Exception):
    """Raised by a property body for a violation that is not a known finding."""

    def __init__(self, signature, what, replay):
        super().__init__(what)
        self.signature = signature
        self.what = what
        self.replay = replay


def mk_settings(max_examples, shrink=True, stateful_steps=None):
    phases = [Phase.generate] + ([Phase.shrink] if shrink else [])
    kw = dict(
        max_examples=max_examples,
        database=None,
        deadline=None,
        derandomize=False,
        report_multiple_bugs=False,
        suppress_health_check=list(HealthCheck),
        phases=phases,
        verbosity=Verbosity.quiet,
        print_blob=False,
    )
    if stateful_steps is not None:
        kw["stateful_step_count"] = stateful_steps
    return settings(**kw)


def search(strategy, body, max_examples, seed, shrink_s=25.0, shrink=True):
    """Runs body(case) over generated cases.  body raises Found for an unknown
    violation; the shrunk Found (or None) is returned.  After shrink_s seconds
    of shrinking only the best known case still fails, which makes the
    shrinker converge at once."""
    st = {"best": None, "repr": None, "t": None}

    @hseed(seed)
    @mk_settings(max_examples, shrink)
    @given(strategy)
    def t(case):
        if st["t"] is not None and time.time() - st["t"] > shrink_s:
            if repr(case) != st["repr"]:
                return
        try:
            body(case)
        except Found as f:
            if st["t"] is None:
                st["t"] = time.time()
            st["best"] = f
            st["repr"] = repr(case)
            raise

    try:
        t()
    except Found:
        return st["best"]
    except hypothesis.errors.FlakyFailure:
        return st["best"]
    except hypothesis.errors.Flaky:
        return st["best"]
    return None
