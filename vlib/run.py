"""Run bookkeeping: counters, samples, violations, known findings, evidence,
exit protocol (DESIGN 2.2, 2.5, 2.6)."""

import hashlib
import json
import os
import sys
import time
import traceback
from collections import Counter
from pathlib import Path

from . import env

VERIF = env.VERIF
MAX_SAMPLES = 12


def h(obj) -> str:
    if not isinstance(obj, (str, bytes)):
        obj = json.dumps(obj, sort_keys=True, default=repr, ensure_ascii=False)
    if isinstance(obj, str):
        obj = obj.encode("utf-8", "surrogatepass")
    return hashlib.sha1(obj).hexdigest()[:16]


def load_known(prop: str):
    p = VERIF / "known_findings.json"
    if not p.exists():
        return []
    data = json.loads(p.read_text())
    return [
        e
        for e in data.get("findings", [])
        if e.get("property") == prop and e.get("status") == "known"
    ]


def sig_matches(known_sig: dict, sig: dict) -> bool:
    """A known signature matches when every key it names has the same value
    in the violation's signature (narrow, explicit match)."""
    for k, v in known_sig.items():
        if k not in sig:
            return False
        if isinstance(v, list):
            if sig[k] not in v:
                return False
        elif sig[k] != v:
            return False
    return True


class Part:
    """Mergeable partial result (one shard / one worker)."""

    def __init__(self):
        self.evaluations = 0
        self.nontrivial = set()
        self.classes = Counter()
        self.samples = []
        self.violations = []  # dicts: signature, what, replay
        self.excluded = Counter()
        self.extra = {}
        self.inconclusive = False

    def case(self, key, nontrivial=False, classes=(), sample=None):
        self.evaluations += 1
        for c in classes:
            self.classes[c] += 1
        if nontrivial:
            k = key if isinstance(key, str) and len(key) == 16 else h(key)
            if k not in self.nontrivial:
                self.nontrivial.add(k)
                if sample is not None and len(self.samples) < MAX_SAMPLES:
                    self.samples.append(sample)
        elif sample is not None and len(self.samples) < 2:
            self.samples.append(sample)

    def violation(self, signature: dict, what: str, replay: dict):
        self.violations.append(
            {"signature": signature, "what": what, "replay": replay}
        )

    def to_dict(self):
        return {
            "evaluations": self.evaluations,
            "nontrivial": sorted(self.nontrivial),
            "classes": dict(self.classes),
            "samples": self.samples,
            "violations": self.violations,
            "excluded": dict(self.excluded),
            "extra": self.extra,
            "inconclusive": self.inconclusive,
        }


class Run:
    def __init__(self, prop: str, tier: str, level="exploration"):
        self.prop = prop
        self.tier = tier
        self.seed = env.seed_int()
        self.level = level
        self.t0 = time.time()
        self.evaluations = 0
        self.nontrivial = set()
        self.classes = Counter()
        self.samples = []
        self.excluded = Counter()
        self.violations = []  # unknown ones
        self.known_hits = Counter()
        self.known = load_known(prop)
        self.rule = ""
        self.assumptions = []
        self.extra = {}
        self.exhaustive = False
        self.inconclusive = False
        self.trusted_base = []
        self.sections = {}

    # ---- recording
    def case(self, key, nontrivial=False, classes=(), sample=None):
        self.evaluations += 1
        for c in classes:
            self.classes[c] += 1
        if nontrivial:
            k = key if isinstance(key, str) and len(key) == 16 else h(key)
            if k not in self.nontrivial:
                self.nontrivial.add(k)
                if sample is not None and len(self.samples) < MAX_SAMPLES:
                    self.samples.append(sample)

    def is_known(self, signature: dict):
        for e in self.known:
            if sig_matches(e.get("signature", {}), signature):
                return e
        return None

    def violation(self, signature: dict, what: str, replay: dict):
        e = self.is_known(signature)
        if e is not None:
            self.known_hits[e["id"]] += 1
            return False
        self.violations.append(
            {"signature": signature, "what": what, "replay": replay}
        )
        return True

    def merge(self, part):
        d = part.to_dict() if isinstance(part, Part) else part
        self.evaluations += d["evaluations"]
        self.nontrivial.update(d["nontrivial"])
        self.classes.update(d["classes"])
        for s in d["samples"]:
            if len(self.samples) < MAX_SAMPLES:
                self.samples.append(s)
        self.excluded.update(d.get("excluded", {}))
        for v in d["violations"]:
            self.violation(v["signature"], v["what"], v["replay"])
        for k, v in d.get("extra", {}).items():
            if isinstance(v, (int, float)) and isinstance(
                self.extra.get(k, 0), (int, float)
            ):
                self.extra[k] = self.extra.get(k, 0) + v
            else:
                self.extra[k] = v
        if d.get("inconclusive"):
            self.inconclusive = True

    def section(self, name, **kw):
        self.sections[name] = kw

    # ---- finishing
    def _write_replay(self, v):
        d = VERIF / "replays" / self.prop
        d.mkdir(parents=True, exist_ok=True)
        body = {
            "property": self.prop,
            "signature": v["signature"],
            "what": v["what"],
            "case": v["replay"],
        }
        name = "new-" + h(body) + ".json"
        p = d / name
        p.write_text(json.dumps(body, indent=1, ensure_ascii=False, default=repr))
        return p

    def finish(self):
        wall = time.time() - self.t0
        # Known findings: one line per listed entry that still reproduces.
        for e in self.known:
            if self.known_hits.get(e["id"]):
                print(
                    f"KNOWN-FINDING: property={self.prop} {e['id']}: {e['what']}"
                    f" (hit {self.known_hits[e['id']]}x this run)"
                )
        cov = {
            "evaluations": self.evaluations,
            "distinct_nontrivial": len(self.nontrivial),
            "rule": self.rule,
            "samples": self.samples[:MAX_SAMPLES],
            "classes": dict(sorted(self.classes.items())),
            "excluded_known": dict(self.known_hits),
            "excluded_by_construction": dict(self.excluded),
            "exhaustive": bool(self.exhaustive),
            "inconclusive_budget": bool(self.inconclusive),
            "trusted_base": self.trusted_base,
            "sections": self.sections,
        }
        cov.update(self.extra)
        ev = {
            "property_id": self.prop,
            "tier": self.tier,
            "seed": self.seed,
            "level": self.level,
            "coverage": cov,
            "assumptions": self.assumptions,
            "wall_s": round(wall, 2),
            "violations": len(self.violations),
        }
        evd = VERIF / "evidence"
        evd.mkdir(exist_ok=True)
        (evd / f"{self.prop}.json").write_text(
            json.dumps(ev, indent=1, ensure_ascii=False, default=repr)
        )
        if self.violations:
            seen = set()
            for v in self.violations:
                k = h(v["signature"])
                if k in seen:
                    continue
                seen.add(k)
                p = self._write_replay(v)
                rel = os.path.relpath(p, VERIF)
                print(f"  what: {v['what']}")
                print(f"  signature: {json.dumps(v['signature'], default=repr)}")
                print(f"VIOLATION property={self.prop} replay={rel}")
            sys.stdout.flush()
            return 1
        print(
            f"OK property={self.prop} tier={self.tier} seed={self.seed} "
            f"evaluations={self.evaluations} "
            f"nontrivial={len(self.nontrivial)} wall={wall:.1f}s"
            + (" INCONCLUSIVE(budget)" if self.inconclusive else "")
        )
        sys.stdout.flush()
        return 0


def harness_error(msg: str):
    print("HARNESS-ERROR: " + msg)
    traceback.print_exc()
    sys.stdout.flush()
    sys.exit(2)
