"""In-process wall-clock watchdog for pure-Python code under test (SIGALRM).
Used where a hang is itself the violation (C05) and as a backstop elsewhere.
Lua / C-level hangs need a child process instead (vlib.par.run_child)."""

import signal
import time


class Watchdog(BaseException):
    pass


def _handler(signum, frame):
    raise Watchdog()


LAST_WHERE = ""


def _where(exc):
    """Innermost frame inside the package under test at the moment the
    watchdog fired: 'function:source line' (used in violation signatures, so
    that one slow spot does not hide another)."""
    import linecache

    tb, found = exc.__traceback__, ""
    while tb is not None:
        co = tb.tb_frame.f_code
        if "wikitextprocessor" in co.co_filename:
            line = linecache.getline(co.co_filename, tb.tb_lineno).strip()
            found = f"{co.co_name}:{line}"[:80]
        tb = tb.tb_next
    return found


def call(fn, timeout_s, *a, **kw):
    """Returns (status, value, elapsed): status in ok / exc / timeout."""
    old = signal.signal(signal.SIGALRM, _handler)
    t0 = time.time()
    # repeating: an alarm that lands inside a context where exceptions are
    # swallowed (a gc callback, a __del__) is lost, the next one is not
    signal.setitimer(signal.ITIMER_REAL, timeout_s, 0.5)
    done = False
    v = None
    try:
        try:
            v = fn(*a, **kw)
            done = True
            signal.setitimer(signal.ITIMER_REAL, 0)
            return "ok", v, time.time() - t0
        except Watchdog as w:
            signal.setitimer(signal.ITIMER_REAL, 0)
            global LAST_WHERE
            LAST_WHERE = _where(w)
            if done:
                # the alarm went off between the return of fn and the
                # disarming of the timer: fn did finish
                return "ok", v, time.time() - t0
            return "timeout", None, time.time() - t0
        except MemoryError as e:
            signal.setitimer(signal.ITIMER_REAL, 0)
            return "exc", e, time.time() - t0
        except Exception as e:
            signal.setitimer(signal.ITIMER_REAL, 0)
            return "exc", e, time.time() - t0
    finally:
        signal.setitimer(signal.ITIMER_REAL, 0)
        signal.signal(signal.SIGALRM, old)
