"""Process-pool sharding and watchdog'd children."""

import multiprocessing as mp
import os
import signal
import time
import traceback


def _wrap(args):
    fn, a, kw = args
    try:
        # `kill -USR1 <worker pid>` prints the worker's Python stack
        import faulthandler
        import signal

        faulthandler.register(signal.SIGUSR1, all_threads=True, chain=False)
    except Exception:
        pass
    try:
        return ("ok", fn(*a, **kw))
    except BaseException as e:  # reported as harness error by the parent
        return ("err", f"{type(e).__name__}: {e}\n{traceback.format_exc()}")


class ShardError(RuntimeError):
    pass


def nprocs(tier: str) -> int:
    n = os.cpu_count() or 4
    env = os.environ.get("VERIF_PROCS")
    if env:
        return max(1, int(env))
    return min(n, 16) if tier == "thorough" else min(n, 8)


def map_shards(fn, arglist, procs, kw=None, method="fork"):
    """Runs fn(*args, **kw) for every args in arglist in a pool; returns the
    list of results in order.  A worker exception is a harness error."""
    kw = kw or {}
    jobs = [(fn, a if isinstance(a, tuple) else (a,), kw) for a in arglist]
    if procs <= 1 or len(jobs) <= 1:
        res = [_wrap(j) for j in jobs]
    else:
        ctx = mp.get_context(method)
        with ctx.Pool(min(procs, len(jobs)), maxtasksperchild=None) as pool:
            res = pool.map(_wrap, jobs, chunksize=1)
    out = []
    for st, r in res:
        if st != "ok":
            raise ShardError(r)
        out.append(r)
    return out


def _child_main(conn, fn, a, kw):
    try:
        r = fn(*a, **kw)
        conn.send(("ok", r))
    except BaseException as e:
        try:
            conn.send(
                ("exc", f"{type(e).__name__}: {e}", traceback.format_exc())
            )
        except Exception:
            pass
    finally:
        conn.close()
        os._exit(0)


def run_child(fn, a=(), kw=None, timeout=20.0, method="fork"):
    """Runs fn in a fresh child under a hard wall-clock watchdog.
    Returns (status, payload, elapsed): status in ok / exc / timeout / died."""
    kw = kw or {}
    ctx = mp.get_context(method)
    parent, child = ctx.Pipe(duplex=False)
    p = ctx.Process(target=_child_main, args=(child, fn, a, kw))
    t0 = time.time()
    p.start()
    child.close()
    status, payload = "died", None
    try:
        if parent.poll(timeout):
            try:
                msg = parent.recv()
                status, payload = msg[0], msg[1:] if len(msg) > 2 else msg[1]
            except EOFError:
                status = "died"
        else:
            status = "timeout"
    finally:
        el = time.time() - t0
        if p.is_alive():
            try:
                os.kill(p.pid, signal.SIGKILL)
            except ProcessLookupError:
                pass
        p.join(5)
        parent.close()
    if status == "died":
        payload = p.exitcode
    return status, payload, el


def fork_child(fn, a=(), kw=None, timeout=20.0):
    """Like run_child but with a bare os.fork (usable from pool workers, which
    are daemonic and may not start multiprocessing children).  Returns
    (status, payload, elapsed): status in ok / exc / timeout / died."""
    import pickle
    import select

    kw = kw or {}
    r, w = os.pipe()
    t0 = time.time()
    pid = os.fork()
    if pid == 0:
        code = 0
        try:
            os.close(r)
            try:
                msg = ("ok", fn(*a, **kw))
            except BaseException as e:
                msg = ("exc", f"{type(e).__name__}: {e}\n"
                              f"{traceback.format_exc()}")
            data = pickle.dumps(msg)
            with os.fdopen(w, "wb") as f:
                f.write(data)
        except BaseException:
            code = 3
        finally:
            os._exit(code)
    os.close(w)
    chunks = []
    status, payload = "died", None
    deadline = t0 + timeout
    try:
        while True:
            left = deadline - time.time()
            if left <= 0:
                status = "timeout"
                break
            rl, _, _ = select.select([r], [], [], min(left, 1.0))
            if rl:
                b = os.read(r, 1 << 16)
                if not b:
                    break
                chunks.append(b)
        if status != "timeout" and chunks:
            try:
                status, payload = pickle.loads(b"".join(chunks))
            except Exception:
                status = "died"
    finally:
        os.close(r)
        if status == "timeout":
            try:
                os.kill(pid, signal.SIGKILL)
            except ProcessLookupError:
                pass
        try:
            _, st = os.waitpid(pid, 0)
            if status == "died":
                payload = st
        except ChildProcessError:
            pass
    return status, payload, time.time() - t0
