"""Process environment for every check: import paths, the Lua fixture,
network stubs.  Import this module before anything from wikitextprocessor."""

import os
import sys
from pathlib import Path

VERIF = Path(__file__).resolve().parent.parent
REPO = Path(os.environ.get("VERIF_REPO", "/repo"))
REPO_SRC = Path(os.environ.get("VERIF_REPO_SRC", str(REPO / "src")))
DEPS = VERIF / ".deps"
FIXTURE_LUA = VERIF / "fixtures" / "lua"

os.environ.setdefault("PYTHONDONTWRITEBYTECODE", "1")
os.environ.setdefault("PYTHONHASHSEED", "0")
os.environ["WIKITEXTPROCESSOR_VERIF"] = "1"
sys.dont_write_bytecode = True

for p in (str(DEPS), str(REPO_SRC), str(VERIF)):
    if p in sys.path:
        sys.path.remove(p)
sys.path.insert(0, str(VERIF))
sys.path.insert(0, str(DEPS))
sys.path.insert(0, str(REPO_SRC))

_done = False


def setup():
    """Imports the package from the working tree, makes Lua usable offline
    (DESIGN 2.7) and cuts the network (DESIGN 2.8)."""
    global _done
    if _done:
        return
    import logging

    import wikitextprocessor  # noqa
    from wikitextprocessor import luaexec

    src = Path(wikitextprocessor.__file__).resolve().parent.parent
    if src != REPO_SRC.resolve():
        raise RuntimeError(
            f"wikitextprocessor imported from {src}, expected {REPO_SRC}"
        )
    entry = (str(FIXTURE_LUA), [])
    if entry not in luaexec.BUILTIN_LUA_SEARCH_PATHS:
        luaexec.BUILTIN_LUA_SEARCH_PATHS.append(entry)
    # no network from process_dump
    try:
        from wikitextprocessor import dumpparser, interwiki

        def _no_interwiki(wtp):
            return None

        dumpparser.init_interwiki_map = _no_interwiki
        interwiki.get_interwiki_data = lambda *a, **k: []
    except Exception:
        pass
    logging.getLogger("wikitextprocessor").setLevel(logging.CRITICAL)
    logging.disable(logging.CRITICAL)
    _done = True


def new_ctx(db_path=None, **kw):
    """A quiet Wtp on a fresh temp database (or db_path)."""
    setup()
    from wikitextprocessor import Wtp

    kw.setdefault("quiet", True)
    kw.setdefault("quiet_output", True)
    return Wtp(db_path=db_path, **kw)


def seed_int() -> int:
    try:
        return int(os.environ.get("VERIF_SEED", "1"))
    except ValueError:
        return 1
