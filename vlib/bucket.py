"""Exception bucketing keyed by (type, innermost package function) — function
names, not line numbers, so keys survive unrelated edits (DESIGN 2.6)."""

import traceback


def exc_bucket(e: BaseException):
    tb = traceback.extract_tb(e.__traceback__)
    fn = "?"
    mod = "?"
    for fr in tb:
        if "wikitextprocessor" in fr.filename:
            fn = fr.name
            mod = fr.filename.rsplit("/", 1)[-1]
    return {"exc": type(e).__name__, "module": mod, "func": fn}


def exc_text(e: BaseException, limit=300):
    return (f"{type(e).__name__}: {e}")[:limit]
