"""C09 — processing a page does not depend on what the context processed
before (differential against a fresh context in a pristine process, plus
absolute expectations for state-mutating Lua pages)."""

import os
import shutil
import tempfile

from hypothesis import strategies as st

from fixtures import lua_modules
from gens import exp, soup
from refs import tree as rtree
from vlib import env, hyp, par
from vlib.bucket import exc_bucket, exc_text
from vlib.run import Part, h, sig_matches

MUT = r"""
local p = {}
local modlocal = 0
local function bump(t, k)
  local old = t[k]
  t[k] = (old or 0) + 1
  return tostring(old)
end
function p.global(frame) local old = G_ZZ; G_ZZ = (G_ZZ or 0) + 1; return tostring(old) end
function p.modlocal(frame) modlocal = modlocal + 1; return tostring(modlocal) end
function p.string_tbl(frame) return bump(string, "zz") end
function p.string_meta(frame) return bump(getmetatable("").__index, "zz") end
function p.math_tbl(frame) return bump(math, "zz") end
function p.table_tbl(frame) return bump(table, "zz") end
function p.os_tbl(frame) return bump(os, "zz") end
function p.mw_global(frame) return bump(mw, "zz") end
function p.mw_require(frame) return bump(require("mw"), "zz") end
function p.mw_text(frame) return bump(mw.text, "zz") end
function p.mw_ustring(frame) return bump(mw.ustring, "zz") end
function p.mw_site(frame) return bump(mw.site, "zz") end
function p.mw_title(frame) return bump(mw.title, "zz") end
function p.mw_language(frame) return bump(mw.language, "zz") end
function p.mw_html(frame) return bump(mw.html, "zz") end
function p.mw_hash(frame) return bump(mw.hash, "zz") end
function p.package_loaded(frame) return bump(package.loaded, "zz") end
function p.loaddata(frame)
  local d = mw.loadData("Module:cdata")
  local old = d.n
  local ok = pcall(function() d.n = (d.n or 0) + 1 end)
  return tostring(old)
end
function p.loadjson(frame)
  local d = mw.loadJsonData("Module:cdata.json")
  local old = d.n
  local ok = pcall(function() d.n = (d.n or 0) + 1 end)
  return tostring(old)
end
function p.retained(frame) return require("Module:utilities").bump() end
function p.required(frame) return require("Module:chelper").bump() end
function p.required_global(frame)
  -- a helper that keeps its counter in a global and reads a global of the
  -- invoking module (both live in the invocation's environment)
  flavour = frame.args[1] or "f"
  return require("Module:cghelper").bump()
end
function p.redefine(frame)
  local before = string.upper("x") .. ("y"):upper()
  string.upper = function() return "HACKED" end
  getmetatable("").__index.upper = function() return "HACKED" end
  return before
end
function p.stripmarkers(frame)
  return frame:extensionTag('nowiki', 'x') .. frame:preprocess('==zz==')
    .. frame:extensionTag{name = 'nowiki', content = 'y'}
end
function p.headings(frame)
  -- heading strip markers are numbered per page in order of first use
  local out = {}
  for i, v in ipairs(frame.args) do
    out[#out + 1] = frame:preprocess("==" .. v .. "==")
  end
  out[#out + 1] = frame:extensionTag("nowiki", "n")
  return table.concat(out, "/")
end
function p.strdelete(frame)
  -- reads first, then DELETES members of the shared string library
  local ok, r = pcall(function() return ("abc"):reverse() .. tostring(#("xy")) end)
  getmetatable("").__index.reverse = nil
  getmetatable("").__index.len = nil
  return tostring(ok) .. tostring(r)
end
function p.envpush(frame)
  -- leaves an extra entry on the host's stack of module environments
  local old = G_PUSHED; G_PUSHED = (G_PUSHED or 0) + 1
  pcall(function() _python_append_env(_G) end)
  return tostring(old)
end
function p.envpush2(frame)
  local old = G_PUSHED2; G_PUSHED2 = (G_PUSHED2 or 0) + 1
  pcall(function() _python_append_env(_G); _python_append_env({}) end)
  return tostring(old)
end
function p.gfunc(frame)
  local before = tostring(rawget(_G, "helperfn"))
  function helperfn() return 1 end
  return before
end
return p
"""
HELPER_G = r"""
local m = {}
function m.bump()
  hits = (hits or 0) + 1
  return tostring(hits) .. ":" .. tostring(flavour)
end
return m
"""
HELPER = r"""
local m = {}
local n = 0
function m.bump() n = n + 1; return tostring(n) end
return m
"""
CDATA = "return { n = nil, list = {1, 2, 3} }"

# channel -> value every single invocation must return on its own
CHANNELS = {
    "global": "nil", "modlocal": "1", "string_tbl": "nil",
    "string_meta": "nil", "math_tbl": "nil", "table_tbl": "nil",
    "os_tbl": "nil", "mw_global": "nil", "mw_require": "nil",
    "mw_text": "nil", "mw_ustring": "nil", "package_loaded": "nil",
    "loaddata": "nil", "loadjson": "0", "retained": "1", "required": "1", "redefine": "XY",
    "gfunc": "nil", "strdelete": "truecba2", "envpush": "nil",
    "envpush2": "nil", "mw_site": "nil", "mw_title": "nil",
    "mw_language": "nil", "mw_html": "nil", "mw_hash": "nil",
    "required_global": "1:f",
}

TEMPLATES = {
    "ta": "A[{{{1|}}}]",
    "tb": "{{ta|{{{1|b}}}}}<noinclude>doc</noinclude>",
    "tloop": "x{{tloop}}",
    "tsec": "\n== sec ==\n{{{1|}}}",
    "ttab": "{|\n| c\n|}",
    "tinv": "{{#invoke:echo|f|{{{1|}}}}}",
    "terr": "{{#invoke:bad|err}}",
    "tpre": "<pre>unclosed {{{1|}}}",
}

FIXED_PAGES = [
    "plain text",
    "== H ==\ntext\n* a\n* b",
    "{{ta|x}} {{tb}} {{tb|y}}",
    "{{tloop}}",
    "{{tsec|q}}\nafter",
    "{{ttab}}",
    "<pre>\nunclosed pre {{ta}}",
    "<nowiki>n {{ta}}</nowiki> <nowiki/> [[a|b]]",
    "{{#expr:1/0}} {{#titleparts:a/b|x}} {{#if:|}} {{#time:Q}}",
    "{{tinv|v}} {{#invoke:echo|f|w}}",
    "{{terr}} {{#invoke:bad|nilidx}} {{#invoke:nomod|f}}",
    "<foo>custom tag</foo> <b>bold</b>",
    "{{tpre|z}}\n== after pre ==",
    "{{#tag:nowiki|x}} {{#tag:ref|r}} {{#invoke:echo|pp|{{ta|pp}}}}",
    "{|\n|+ cap\n! h\n|-\n| {{ta|cell}}\n|}",
    "__NOTOC__ ''i'' '''b''' [http://x.org t] <!-- c -->",
    "{{#invoke:mut|stripmarkers}} {{#invoke:mut|stripmarkers}}",
    "{{#invoke:mut|headings|Etymology|Noun|Verb}}",
    "{{#invoke:mut|headings|Verb|Adjective}} {{#invoke:mut|headings|Noun}}",
    "{{#invoke:mut|headings|zz|Adjective|Etymology|Verb}}",
    "{{ta|{{tb|{{ta|deep}}}}}} [[L|{{ta|in link}}]] {{{1|{{ta|dflt}}}}}",
]

OPS = [
    ("expand", {}),
    ("expand", {"pre_expand": True}),
    ("parse", {}),
    ("parse", {"pre_expand": True}),
    ("parse", {"expand_all": True}),
    ("expand", {"expand_invoke": False}),
]

NEWCTX = [
    {"extension_tags": {"foo": {"parents": ["phrasing"],
                                "content": ["phrasing"]}}},
    {"parser_function_aliases": {"#si": "#if"}},
    {"template_override_funcs": {"ta": lambda args: "OVERRIDDEN"}},
    {"lang_code": "fr"},
    {"project": "wikipedia"},
]


def lua_pages():
    out = []
    for ch in CHANNELS:
        out.append(("lua:" + ch, "{{#invoke:mut|%s}}" % ch))
    # two invocations of one channel on one page, and a mixed page
    for ch in CHANNELS:
        out.append(("lua2:" + ch, "{{#invoke:mut|%s}}/{{#invoke:mut|%s}}"
                    % (ch, ch)))
    return out


def build_corpus(seed_pages):
    """[(tag, title, text)]"""
    pages = []
    for i, t in enumerate(FIXED_PAGES):
        pages.append(("fixed", "Fixed %d" % i, t))
    for tag, t in lua_pages():
        pages.append((tag, "Lua " + tag.replace(":", " "), t))
    for i, t in enumerate(seed_pages):
        pages.append(("gen", "Gen %d" % i, t))
    return pages


def install(ctx, lib_extra=None):
    lua_modules.install(ctx)
    ctx.add_page("Module:mut", 828, MUT, model="Scribunto")
    ctx.add_page("Module:utilities", 828, HELPER, model="Scribunto")
    ctx.add_page("Module:chelper", 828, HELPER, model="Scribunto")
    ctx.add_page("Module:cghelper", 828, HELPER_G, model="Scribunto")
    ctx.add_page("Module:cdata", 828, CDATA, model="Scribunto")
    ctx.add_page("Module:cdata.json", 828, '{"n": 0, "list": [1, 2, 3]}',
                 model="json")
    for k, v in TEMPLATES.items():
        ctx.add_page("Template:" + k, 10, v, need_pre_expand=k in ("tsec", "ttab"))
    ctx.db_conn.commit()


def messages(ctx):
    out = []
    for kind in ("errors", "warnings", "debugs", "notes", "wiki_notices"):
        for m in getattr(ctx, kind):
            out.append((kind, m.get("msg"), m.get("title"), m.get("section"),
                        m.get("subsection"), tuple(m.get("path") or ())))
    return tuple(out)


def process(ctx, title, text, opi):
    """Canonical result of one step: ('ok', value, messages) or ('exc', ..)."""
    from wikitextprocessor.parser import WikiNode

    op, kw = OPS[opi]
    ctx.start_page(title)
    try:
        if op == "expand":
            v = ctx.expand(text, **kw)
        else:
            v = rtree.strict(ctx.parse(text, **kw), WikiNode)
        return ("ok", v, messages(ctx))
    except Exception as e:
        return ("exc", type(e).__name__ + ": " + str(e)[:200], ())


def compute_refs(db_path, pages):
    """Runs in a pristine forked child: every (page, op) on its own fresh
    context on the same database."""
    env.setup()
    out = {}
    for pi, (tag, title, text) in enumerate(pages):
        for opi in range(len(OPS)):
            ctx = env.new_ctx(db_path=db_path)
            try:
                out[(pi, opi)] = process(ctx, title, text, opi)
            finally:
                ctx.close_db_conn()
    return out


def absolute_expectation(tag, opi):
    """For single-channel Lua pages the value is known by construction."""
    op, kw = OPS[opi]
    if op != "expand" or kw.get("expand_invoke") is False:
        return None
    kind, _, ch = tag.partition(":")
    if kind == "lua":
        return CHANNELS[ch]
    if kind == "lua2":
        return CHANNELS[ch] + "/" + CHANNELS[ch]
    return None


def history_strategy(npages):
    step = st.one_of(
        st.tuples(st.just("proc"), st.integers(0, npages - 1),
                  st.integers(0, len(OPS) - 1)),
        st.tuples(st.just("proc"), st.integers(0, npages - 1),
                  st.integers(0, len(OPS) - 1)),
        st.tuples(st.just("proc"), st.integers(0, npages - 1),
                  st.integers(0, len(OPS) - 1)),
        st.tuples(st.just("newctx"), st.integers(0, len(NEWCTX) - 1),
                  st.just(0)),
    )
    return st.lists(step, min_size=2, max_size=40)


def diff_class(a, b):
    if a[0] != b[0]:
        return "status"
    if a[1] != b[1]:
        return "value"
    return "messages"


def shard(idx, seed, n_hist, known):
    env.setup()
    part = Part()
    import random

    rnd = random.Random(seed * 101 + idx)
    # generated pages: token soups and expansion-grammar pages
    gen_pages = []
    from hypothesis import HealthCheck, Phase, given, settings
    from hypothesis import seed as hseed

    bag = []

    @hseed(seed * 1000 + idx)
    @settings(max_examples=12, database=None, deadline=None,
              suppress_health_check=list(HealthCheck),
              phases=[Phase.generate])
    @given(soup.soup(25), exp.seq_strategy(tuple(TEMPLATES), 3, False, None,
                                            max_items=4))
    def collect(s, e):
        bag.append(s)
        bag.append(exp.render(e))

    collect()
    gen_pages = [b for b in bag if b.strip()][:14]
    pages = build_corpus(gen_pages)
    d = tempfile.mkdtemp(prefix="verif-c09-")
    buckets = {}
    try:
        db_path = os.path.join(d, "db.sqlite")
        ctx0 = env.new_ctx(db_path=db_path)
        install(ctx0)
        ctx0.close_db_conn()
        status, refs, el = par.fork_child(compute_refs, (db_path, pages),
                                         timeout=600)
        if status != "ok":
            raise RuntimeError(f"reference child failed: {status} {refs!r}")

        def record(sig, what, rep, size):
            """Returns True when the violation matches a listed finding (the
            history then goes on, so the search reaches what lies behind)."""
            for k in known:
                if sig_matches(k["signature"], sig):
                    if not part.excluded[k["id"]]:
                        part.violation(sig, what, rep)
                    part.excluded[k["id"]] += 1
                    return True
            key = h(sig)
            if key not in buckets or size < buckets[key][3]:
                buckets[key] = (sig, what, rep, size)
            return False

        # absolute expectations on the references themselves (a leak that
        # shows inside one page shows in a fresh context too)
        for pi, (tag, title, text) in enumerate(pages):
            for opi in range(len(OPS)):
                want = absolute_expectation(tag, opi)
                if want is None:
                    continue
                r = refs[(pi, opi)]
                part.case(h(("abs", tag, opi)), tag.startswith("lua2"),
                          classes=["absolute", "channel:" + tag.split(":")[1]],
                          sample={"page": text, "expected": want})
                if r[0] != "ok" or r[1] != want:
                    record({"kind": "lua-state-visible",
                            "channel": tag.split(":")[1],
                            "scope": "same-page" if tag.startswith("lua2")
                            else "first-invocation"},
                           f"fresh context: expand({text!r}) = {r[1]!r}, "
                           f"each invocation alone gives {want!r}",
                           {"kind": "abs", "tag": tag, "text": text,
                            "op": opi}, 1)

        def body(hist):
            ctx = env.new_ctx(db_path=db_path)
            seen_pages = []
            mwreq_before = False
            lua_before = False
            newctx_before = False
            nt = False
            try:
                for si, (kind, a, b) in enumerate(hist):
                    if kind == "newctx":
                        other = env.new_ctx(db_path=db_path, **NEWCTX[a])
                        try:
                            other.start_page("Other")
                            other.expand("<foo>x</foo>{{ta}}")
                        except Exception:
                            pass
                        finally:
                            other.close_db_conn()
                        newctx_before = True
                        continue
                    tag, title, text = pages[a]
                    got = process(ctx, title, text, b)
                    want = refs[(a, b)]
                    revisit = a in seen_pages and seen_pages[-1] != a
                    if revisit and (lua_before or newctx_before):
                        nt = True
                    seen_pages.append(a)
                    if tag.startswith("lua"):
                        lua_before = True
                    this_mwreq = tag.endswith(":mw_require") and \
                        OPS[b][1].get("expand_invoke") is not False and \
                        (OPS[b][0] == "expand" or OPS[b][1])
                    if got != want:
                        ch = tag.split(":")[1] if ":" in tag else None
                        sig = {"kind": "history-dependent",
                               "what": diff_class(got, want),
                               "page_class": tag.split(":")[0],
                               "channel": ch,
                               "after_newctx": newctx_before and not lua_before,
                               # the global mw is cloned from the shared
                               # library table that require('mw') hands out
                               "after_require_mw_write": mwreq_before}
                        if not record(sig,
                               f"step {si} of history {hist[:si + 1]!r}: "
                               f"{OPS[b][0]}{OPS[b][1]} of page {title!r} "
                               f"({text[:80]!r}) gave {str(got[1])[:160]!r} "
                               f"messages {str(got[2])[:120]}; a fresh context "
                               f"gives {str(want[1])[:160]!r} messages "
                               f"{str(want[2])[:120]}",
                               {"kind": "hist", "hist": [list(x) for x in
                                                         hist[:si + 1]],
                                "pages": [list(p) for p in pages]}, si):
                            break
                    if this_mwreq:
                        mwreq_before = True
            finally:
                ctx.close_db_conn()
            part.case(h(hist), nt, classes=["history",
                                            "len:%d" % (len(hist) // 10 * 10)]
                      + (["with-newctx"] if newctx_before else [])
                      + (["with-lua"] if lua_before else []),
                      sample={"history": [list(x) for x in hist[:12]]})

        hyp.search(history_strategy(len(pages)), body, n_hist,
                   seed * 1000 + 77 + idx, shrink=False)
    finally:
        shutil.rmtree(d, ignore_errors=True)
    for sig, what, rep, _ in buckets.values():
        part.violation(sig, what, rep)
    part.extra["pages_in_corpus"] = len(pages)
    return part.to_dict()


def run(run):
    quick = run.tier == "quick"
    procs = par.nprocs(run.tier)
    n = 150 if quick else 1500
    for d in par.map_shards(shard, [(i, run.seed, n, run.known)
                                    for i in range(procs)], procs):
        run.merge(d)
    run.rule = (
        "Per shard a corpus of ~50 pages on one database file: 16 fixed "
        "pages (headings, lists, tables, template loops, unclosed <pre>, "
        "failing parser functions, Lua errors, custom tags), one page per "
        "Lua state channel (global, module local, string / math / table / "
        "os tables, string metatable, mw global, require('mw'), mw.text, "
        "mw.ustring, package.loaded, mw.loadData result, a module on the "
        "sandbox's retained list, an ordinary required module, redefined "
        "library functions, global function), two-invocation pages, and "
        "generated token soups / expansion-grammar pages. Histories of 2-40 "
        "steps (start_page + expand or parse under 6 option sets on a page; "
        "or construction and use of another Wtp with extension_tags / "
        "parser_function_aliases / template_override_funcs / lang_code / "
        "project) run on one context. Oracle: every step's canonical result "
        "(expansion string or strict tree, plus message records without "
        "traces) equals that of a fresh context on the same database "
        "computed in a pristine child process; and every single-channel Lua "
        "page has the value known by construction. Non-trivial = history "
        "revisits a page after another page with a Lua-mutating page or a "
        "new_context step before it."
    )
    run.assumptions = [
        "message records are compared without their trace field",
        "no time-dependent magic words in the corpus",
    ]
    run.trusted_base = ["fixtures/lua/* stand-ins", "fixtures/lua_modules.py",
                        "refs/tree.py strict()"]


def replay(run, case):
    env.setup()
    d = tempfile.mkdtemp(prefix="verif-c09-")
    try:
        db_path = os.path.join(d, "db.sqlite")
        ctx0 = env.new_ctx(db_path=db_path)
        install(ctx0)
        ctx0.close_db_conn()
        if case["kind"] == "abs":
            pages = [(case["tag"], "Lua page", case["text"])]
            status, refs, _ = par.fork_child(compute_refs, (db_path, pages),
                                            timeout=120)
            want = absolute_expectation(case["tag"], case["op"])
            r = refs[(0, case["op"])]
            run.case(h(("abs", case["tag"])), True,
                     sample={"page": case["text"]})
            if r[0] != "ok" or r[1] != want:
                run.violation({"kind": "lua-state-visible",
                               "channel": case["tag"].split(":")[1],
                               "scope": "same-page" if
                               case["tag"].startswith("lua2") else
                               "first-invocation"},
                              f"expand({case['text']!r}) = {r[1]!r}, expected "
                              f"{want!r}", case)
            return
        pages = [tuple(p) for p in case["pages"]]
        status, refs, _ = par.fork_child(compute_refs, (db_path, pages),
                                        timeout=600)
        ctx = env.new_ctx(db_path=db_path)
        newctx_before = lua_before = False
        run.case(h(case["hist"]), True, sample={"history": case["hist"][:12]})
        try:
            for si, (kind, a, b) in enumerate(case["hist"]):
                if kind == "newctx":
                    other = env.new_ctx(db_path=db_path, **NEWCTX[a])
                    other.start_page("Other")
                    try:
                        other.expand("<foo>x</foo>{{ta}}")
                    except Exception:
                        pass
                    other.close_db_conn()
                    newctx_before = True
                    continue
                tag, title, text = pages[a]
                got = process(ctx, title, text, b)
                want = refs[(a, b)]
                if tag.startswith("lua"):
                    lua_before = True
                if got != want:
                    ch = tag.split(":")[1] if ":" in tag else None
                    run.violation({"kind": "history-dependent",
                                   "what": diff_class(got, want),
                                   "page_class": tag.split(":")[0],
                                   "channel": ch,
                                   "after_newctx": newctx_before and
                                   not lua_before},
                                  f"step {si}: page {title!r} gave "
                                  f"{str(got[1])[:160]!r}; fresh context "
                                  f"{str(want[1])[:160]!r}", case)
                    break
        finally:
            ctx.close_db_conn()
    finally:
        shutil.rmtree(d, ignore_errors=True)
