"""C19 — tree -> wikitext -> tree round trip (DESIGN 5/C19)."""

from hypothesis import strategies as st

from gens import doc, soup
from refs import tree as rtree
from vlib import env, hyp, par
from vlib.bucket import exc_bucket, exc_text
from vlib.run import Part, h, sig_matches

LITERAL = ["a [[ b", "x ]] y", "[[", "p [[q]] r ]]", "]] [[", "f[[g", "[[[x]]]"]


def first_diff(a, b, path="root"):
    if type(a) != type(b):
        return path, a, b
    if isinstance(a, tuple):
        if len(a) == 6 and isinstance(a[0], str) and a[0].isupper() \
                and len(b) == 6:
            names = ("kind", "sarg", "largs", "attrs", "children", "definition")
            for nm, x, y in zip(names, a, b):
                if x != y:
                    if nm in ("kind", "sarg", "attrs"):
                        return f"{path}/{a[0]}.{nm}", x, y
                    return first_diff(x, y, f"{path}/{a[0]}.{nm}")
            return None
        for i, (x, y) in enumerate(zip(a, b)):
            if x != y:
                return first_diff(x, y, f"{path}[{i}]")
        if len(a) != len(b):
            return f"{path}(len)", len(a), len(b)
        return None
    if a != b:
        return path, a, b
    return None


def diff_class(d):
    path, x, y = d
    leaf = path.rsplit("/", 1)[-1]
    kind = leaf.split(".")[0].split("[")[0]
    what = leaf.split(".")[-1].split("[")[0].split("(")[0]
    if isinstance(x, str) and isinstance(y, str):
        if x.split() == y.split():
            what += ":whitespace"
        else:
            what += ":text"
    return kind, what


def check_doc(ctx, text):
    from wikitextprocessor import NodeKind, WikiNode

    K = NodeKind
    ctx.start_page("Test")
    try:
        t1 = ctx.parse(text)
        w1 = ctx.node_to_wikitext(t1)
        t2 = ctx.parse(w1)
        w2 = ctx.node_to_wikitext(t2)
        t3 = ctx.parse(w2)
    except Exception as e:
        return ({"kind": "exception", **exc_bucket(e)}, exc_text(e)), None
    c1 = rtree.canon(t1, K, WikiNode)
    c2 = rtree.canon(t2, K, WikiNode)
    c3 = rtree.canon(t3, K, WikiNode)
    if c1 != c2:
        d = first_diff(c1, c2)
        k, w = diff_class(d)
        import re

        if re.search(r"'{6,}", w1) and not re.search(r"'{6,}", text):
            # two quote constructs serialised back to back ()
            return ({"kind": "roundtrip", "cause": "adjacent-quote-runs"},
                    f"serialised text has a run of >= 6 apostrophes: "
                    f"{w1[:120]!r} (tree changed at {d[0]})"[:400]), t1
        return ({"kind": "roundtrip", "node": k, "field": w},
                f"tree changed at {d[0]}: {d[1]!r} -> {d[2]!r}; wikitext "
                f"{w1[:120]!r}"[:400]), t1
    if c2 != c3:
        d = first_diff(c2, c3)
        k, w = diff_class(d)
        return ({"kind": "not-fixed-point", "node": k, "field": w},
                f"second round trip changed {d[0]}: {d[1]!r} -> {d[2]!r}"[:400]), t1
    return None, t1


def check_literal(ctx, s):
    from wikitextprocessor import NodeKind, WikiNode

    ctx.start_page("Test")
    w = ctx.node_to_wikitext(s)
    root = ctx.parse(w)
    if any(True for _ in root.find_child_recursively(NodeKind.LINK)):
        return ({"kind": "literal-became-link"},
                f"to_wikitext({s!r}) = {w!r} parses with a LINK node")
    flat = "".join(x for x in root.children if isinstance(x, str))
    if not all(isinstance(x, str) for x in root.children) or flat != s:
        return ({"kind": "literal-changed"},
                f"to_wikitext({s!r}) = {w!r} parses to {root.children!r}")
    return None


def check_parts(ctx, t1):
    """Sub-trees, child lists and largs passed directly (the API accepts
    nodes, strings and lists): the pieces concatenate to the whole."""
    from wikitextprocessor import WikiNode

    whole = ctx.node_to_wikitext(t1)
    parts = "".join(ctx.node_to_wikitext(c) for c in t1.children)
    if parts != whole:
        return ({"kind": "parts-differ"},
                "to_wikitext(root) != concatenation of to_wikitext(child)")
    if ctx.node_to_wikitext(t1.children) != whole:
        return ({"kind": "list-differs"},
                "to_wikitext(children list) != to_wikitext(root)")
    for c in t1.children:
        if isinstance(c, WikiNode) and c.largs:
            a = ctx.node_to_wikitext(c.largs)
            b = "".join(ctx.node_to_wikitext(x) for x in c.largs)
            if a != b:
                return ({"kind": "largs-differ"}, "largs list vs pieces")
    return None


def nontrivial(text):
    cls = soup.struct_classes(text)
    return len(cls) >= 3 or "{|" in text and "=" in text


def shard(idx, seed, n, known):
    env.setup()
    part = Part()
    ctx = env.new_ctx()

    def body(text):
        r, t1 = check_doc(ctx, text)
        if r is None and t1 is not None:
            r2 = check_parts(ctx, t1)
            if r2 is not None:
                r = r2
        cls = soup.struct_classes(text)
        part.case(h(text), nontrivial(text), classes=["tok:" + c for c in cls],
                  sample={"text": text[:300]})
        if r is not None:
            sig, what = r[0], r[1]
            rep = {"text": text}
            for k in known:
                if sig_matches(k["signature"], sig):
                    if not part.excluded[k["id"]]:
                        part.violation(sig, what, rep)
                    part.excluded[k["id"]] += 1
                    return
            raise hyp.Found(sig, what, rep)

    if idx == 0:
        for s in LITERAL:
            r = check_literal(ctx, s)
            part.case(h("lit" + s), True, classes=["literal-brackets"],
                      sample={"literal": s})
            if r is not None:
                part.violation(r[0], r[1], {"literal": s})
    f = hyp.search(doc.rt_document(), body, n, seed * 1000 + idx, shrink_s=30)
    if f is not None:
        part.violation(f.signature, f.what, f.replay)
    try:
        ctx.close_db_conn()
    except Exception:
        pass
    return part.to_dict()


def run(run):
    procs = par.nprocs(run.tier)
    shards, n = (procs, 500) if run.tier == "quick" else (16, 40000)
    for d in par.map_shards(shard, [(i, run.seed, n, run.known)
                                    for i in range(shards)], procs):
        run.merge(d)
    run.rule = (
        "Hypothesis documents from the structured grammar of the statement "
        "(sections, */# lists, tables with attributes / captions / both cell "
        "styles, bold / italic, links, templates, parser functions, HTML "
        "elements with URL-safe attribute values; depth <=4): T1 = parse(d), "
        "T2 = parse(to_wikitext(T1)), T3 = parse(to_wikitext(T2)); oracle: "
        "R-canon(T1) == R-canon(T2) == R-canon(T3) where R-canon forgives only "
        "whitespace at block boundaries; sub-trees / child lists / largs "
        "passed directly concatenate to the whole; literal [[ / ]] strings "
        "survive without becoming links. Non-trivial = >= 3 structural token "
        "classes or a table with attributes; distinct by SHA-1 of the text."
    )
    run.trusted_base = ["refs/tree.py (canon)"]


def replay(run, case):
    ctx = env.new_ctx()
    try:
        if "literal" in case:
            r = check_literal(ctx, case["literal"])
            key = "lit" + case["literal"]
        else:
            r, _ = check_doc(ctx, case["text"])
            key = case["text"]
    finally:
        ctx.close_db_conn()
    run.case(h(key), True, sample=case)
    if r is not None:
        run.violation(r[0], r[1], case)
