"""C18 — parser functions compute their documented values."""

import itertools
import json
import math
import re
import urllib.parse

from hypothesis import strategies as st

from refs import pfn
from vlib import env, hyp, par
from vlib.bucket import exc_bucket, exc_text
from vlib.run import Part, h, sig_matches

ERR = '<strong class="error">'

NUMS = ["0", "1", "2", "3", "4", "5", "7", "10", "12", "100", "1.5", ".5",
        "2.", "0.25", "3.75", "2.5", "9"]
SMALL = ["0", "1", "2", "3", "1.5", "7"]


# ------------------------------------------------------------------ #expr
def ast_strategy(max_depth=5):
    leaf = st.one_of(
        st.sampled_from(NUMS).map(lambda t: ("n", t)),
        st.sampled_from(["pi", "e"]).map(lambda c: ("c", c)),
    )
    digits = st.sampled_from(["0", "1", "2", "3"]).map(lambda t: ("n", t))
    expo = st.one_of(
        st.sampled_from(["0", "1", "2", "3"]).map(lambda t: ("n", t)),
        st.sampled_from(["1", "2", "3"]).map(
            lambda t: ("u", "neg", ("n", t))),
    )

    def ext(ch):
        plain = st.sampled_from([o for o in pfn.BINARY
                                 if o not in ("round", "e")])
        return st.one_of(
            st.tuples(st.just("b"), plain, ch, ch),
            st.tuples(st.just("b"), st.just("round"), ch, digits),
            st.tuples(st.just("b"), st.just("e"), ch, expo),
            st.tuples(st.just("u"),
                      st.sampled_from(("neg", "pos") + pfn.UNARY_FNS), ch),
        )

    return st.recursive(leaf, ext, max_leaves=12).filter(
        lambda a: pfn.depth(a) <= max_depth)


def eval_real(ctx, text):
    return ctx.expand("{{#expr:" + text + "}}")


def num_equal(got, want):
    try:
        g = float(got)
    except ValueError:
        return False
    return abs(g - want) <= 1e-9 * max(1.0, abs(want))


def expr_case(ctx, ast, gaps, cases):
    """Returns (status, detail, texts).  status: ok / drop / viol."""
    try:
        want = pfn.ev(ast)
    except pfn.Drop as d:
        return "drop", str(d), None
    t_min = pfn.join(pfn.tokens(ast), [1], [0])
    t_full = pfn.join(pfn.tokens(ast, full=True), [1], [0])
    t_rnd = pfn.join(pfn.tokens(ast), gaps, cases)
    t_rnd_full = pfn.join(pfn.tokens(ast, full=True), gaps, cases)
    texts = {"min": t_min, "full": t_full, "min-blanks-case": t_rnd,
             "full-blanks-case": t_rnd_full}
    outs = {}
    for k, t in texts.items():
        try:
            outs[k] = eval_real(ctx, t)
        except Exception as e:
            return "viol", ({"part": "expr", "kind": "exception",
                             **exc_bucket(e)},
                            f"#expr:{t} raised {exc_text(e)}"), texts
    # reference value on the fully parenthesised rendering first: that one
    # does not depend on precedence at all
    for k in ("full", "min", "full-blanks-case", "min-blanks-case"):
        o = outs[k]
        if not num_equal(o, want):
            cause = "error-element" if ERR in o else "value"
            ops = sorted(set(pfn.binops(ast)))
            sig = {"part": "expr", "kind": cause, "rendering": k,
                   "full_ok": num_equal(outs["full"], want)}
            return "viol", (sig, f"{{{{#expr:{texts[k]}}}}} = {o!r}, documented "
                                 f"precedence gives {want!r} "
                                 f"(fully parenthesised: {texts['full']} = "
                                 f"{outs['full']!r}; operators {ops})"), texts
    return "ok", want, texts


def pair_asts():
    """Every ordered pair of binary operators in both association shapes, and
    every prefix operator against every binary operator in the three
    positions — the finite core of 'precedence and associativity'."""
    triples = [("7", "2", "3"), ("1.5", "4", "2"), ("0", "5", "1"),
               ("12", "3", "2")]

    def rhs(op, t):
        if op == "round":
            return ("n", t if t in ("0", "1", "2", "3") else "1")
        if op == "e":
            return ("n", t if t in ("0", "1", "2", "3") else "2")
        return ("n", t)

    for o1 in pfn.BINARY:
        for o2 in pfn.BINARY:
            for a, b, c in triples:
                yield ("b", o2, ("b", o1, ("n", a), rhs(o1, b)), rhs(o2, c))
                yield ("b", o1, ("n", a), ("b", o2, ("n", b), rhs(o2, c))) \
                    if o1 not in ("round", "e") else \
                    ("b", o2, ("b", o1, ("n", a), rhs(o1, b)), rhs(o2, c))
    for u in ("neg", "pos") + pfn.UNARY_FNS:
        for o in pfn.BINARY:
            for a, b in (("2", "3"), ("0.25", "2"), ("1", "1")):
                yield ("u", u, ("b", o, ("n", a), rhs(o, b)))
                yield ("b", o, ("u", u, ("n", a)), rhs(o, b))
                if o not in ("round", "e"):
                    yield ("b", o, ("n", a), ("u", u, ("n", b)))
        for u2 in ("neg", "pos") + pfn.UNARY_FNS:
            yield ("u", u, ("u", u2, ("n", "0.25")))


def expr_shard(idx, nshards, seed, n_random, known):
    env.setup()
    part = Part()
    ctx = env.new_ctx()
    ctx.start_page("Test")
    buckets = {}
    cnt = [0]

    def one(ast, gaps, cases, origin):
        cnt[0] += 1
        if cnt[0] % 500 == 0:
            ctx.start_page("Test")
        status, detail, texts = expr_case(ctx, ast, gaps, cases)
        if status == "drop":
            part.excluded["expr: reference declines (" + detail + ")"] += 1
            return
        ops = pfn.binops(ast)
        precs = {pfn.prec(o) for o in ops}
        nt = len(set(ops)) >= 2 and len(precs) >= 2
        part.case(h(repr(ast)), nt,
                  classes=["expr:" + origin, "expr-depth:%d" % pfn.depth(ast)],
                  sample={"expr": texts["min"], "full": texts["full"],
                          "variant": texts["min-blanks-case"],
                          "value": detail if status == "ok" else None})
        if status == "viol":
            sig, what = detail
            rep = {"kind": "expr", "ast": ast, "gaps": list(gaps),
                   "cases": list(cases)}
            for k in known:
                if sig_matches(k["signature"], sig):
                    if not part.excluded[k["id"]]:
                        part.violation(sig, what, rep)
                    part.excluded[k["id"]] += 1
                    return
            key = h(sig)
            if key not in buckets or len(repr(ast)) < len(repr(buckets[key][2]["ast"])):
                buckets[key] = (sig, what, rep)

    for i, ast in enumerate(pair_asts()):
        if i % nshards == idx:
            one(ast, [i % 3, (i // 3) % 3, 1], [i % 3, 0, (i // 2) % 3],
                "operator-pairs")

    def body(c):
        ast, gaps, cases = c
        one(ast, gaps, cases, "random-ast")

    hyp.search(st.tuples(ast_strategy(),
                         st.lists(st.integers(0, 2), min_size=1, max_size=6),
                         st.lists(st.integers(0, 2), min_size=1, max_size=4)),
               body, n_random, seed * 1000 + idx, shrink=False)
    ctx.close_db_conn()
    for sig, what, rep in buckets.values():
        part.violation(sig, what, rep)
    return part.to_dict()


# ------------------------------------------------------- string functions
ALPHA = "abc "


def strings(maxlen, alpha=ALPHA):
    for n in range(maxlen + 1):
        for t in itertools.product(alpha, repeat=n):
            yield "".join(t)


def needles():
    out = [None, ""]
    for n in (1, 2):
        for t in itertools.product("abc ", repeat=n):
            s = "".join(t)
            if s == s.strip() and s:
                out.append(s)
    out.append("a b")
    return out


INTS = list(range(-10, 11))


def call(fn, *args):
    args = list(args)
    while args and args[-1] is None:
        args.pop()
    a = ["" if x is None else str(x) for x in args]
    if fn in ("lc", "uc", "lcfirst", "ucfirst", "padleft", "padright",
              "urlencode", "plural", "formatnum"):
        return "{{" + fn + ":" + "|".join(a) + "}}"
    return "{{" + fn + ":" + "|".join(a) + "}}"


def strfn_cases(fn, maxlen, quick):
    """Yields (call text, expected, nontrivial, class)."""
    if fn == "#len":
        for s in strings(maxlen + 1):
            yield call(fn, s), pfn.f_len(s), s != s.strip(), "len"
    elif fn == "#pos":
        for s in strings(maxlen):
            for nd in needles():
                for off in [None] + list(range(0, 11)):
                    exp = pfn.f_pos(s, nd or "", off or 0)
                    yield (call(fn, s, nd, off), exp,
                           off is not None and off > len(s.strip()) or
                           (off or 0) > 0 and exp != "", "pos")
    elif fn == "#rpos":
        for s in strings(maxlen):
            for nd in needles():
                yield (call(fn, s, nd), pfn.f_rpos(s, nd or ""),
                       s.strip().count(nd or " ") >= 2, "rpos")
    elif fn == "#sub":
        for s in strings(maxlen):
            n = len(s.strip())
            for a in [None] + INTS:
                for b in [None] + INTS:
                    yield (call(fn, s, a, b), pfn.f_sub(s, a or 0, b or 0),
                           (a or 0) < 0 or (b or 0) < 0 or (a or 0) > n or
                           (b or 0) > n, "sub")
    elif fn == "#replace":
        repls = [None, "", "x", "xy", "a", "ab", "b a"]
        for s in strings(maxlen):
            for nd in needles():
                for r in repls:
                    yield (call(fn, s, nd, r),
                           pfn.f_replace(s, nd or "", r or ""),
                           s.strip().count(nd or " ") >= 2, "replace")
    elif fn == "#explode":
        lim = [None, 0, 1, 2, 3, 5]
        for s in strings(maxlen - 1 if not quick else maxlen):
            for nd in needles():
                for pos in [None] + INTS:
                    for li in lim:
                        exp = pfn.f_explode(s, nd or "", pos or 0, li or 0)
                        yield (call(fn, s, nd, pos, li), exp,
                               (pos or 0) < 0 or bool(li), "explode")
    elif fn == "#titleparts":
        for s in strings(maxlen + 1, "Ab/"):
            if not s or s != s.strip() or "//" in s or s[0] == "/" \
                    or s[-1] == "/" or not s[0].isupper():
                continue
            for a in [None] + INTS:
                for b in [None] + INTS:
                    yield (call(fn, s, a, b),
                           pfn.f_titleparts(s, a or 0, 1 if b is None else b),
                           (a or 0) < 0 or (b or 0) < 0, "titleparts" +
                           (":start>0" if (b or 0) > 0 else ""))
    elif fn in ("padleft", "padright"):
        pads = [None, "", "0", "x", "ab", "abc", "-"]
        for s in strings(maxlen):
            for cnt in [None] + INTS + [12, 20]:
                for pd in pads:
                    yield (call(fn, s, cnt, pd),
                           pfn.f_pad(s, cnt, pd, fn == "padleft"),
                           pd is not None and len(pd) > 1 and
                           (cnt or 0) > len(s.strip()), fn)


UNI = ["", "a", "A", "abc", "ABC", "aBc dEf", "éa", "Éa", "àÉî", "ñandú",
       "ÑANDÚ", "ωμέγα", "ΩΜΈΓΑ", "привет", "ПРИВЕТ", "élan vital",
       "Élan", "1abc", " x ", "çA", "Ça", "ölÖL", "žŠ", "đĐ", "日本語", "a1B2",
       "æØå", "ÆøÅ", "ǆ"]


def case_fns():
    for s in UNI:
        t = s.strip()
        yield call("lc", s), t.lower(), True, "lc"
        yield call("uc", s), t.upper(), True, "uc"
        yield (call("lcfirst", s), (t[:1].lower() + t[1:]) if t else "",
               True, "lcfirst")
        if t[:1] != "ǆ":  # title-case vs upper-case digraph: docs silent
            yield (call("ucfirst", s), (t[:1].upper() + t[1:]) if t else "",
                   True, "ucfirst")


URLS = ["", "a", "a b", "x:y/z á é", "a&b=c", "100%", "a+b", "q?r", "ü/ö",
        "A-b_c.d", "a  b", " lead", "日本", "a:b", "/p/q", "k=v&l=w x"]


def url_cases():
    for s in URLS:
        for fmt in (None, "QUERY", "PATH", "WIKI"):
            f = fmt or "QUERY"
            enc = pfn.f_urlencode(s, f)
            yield call("urlencode", s, fmt), enc, True, "urlencode:" + f
            dec = s.strip()
            if f == "WIKI":
                dec = "_".join(dec.split())
            yield ("{{#urldecode:" + call("urlencode", s, fmt) + "}}", dec,
                   True, "urldecode-roundtrip:" + f)


def plural_cases():
    for n in list(range(0, 31)) + [100, 101, 1000]:
        yield (call("plural", n, "one", "many"),
               "one" if n == 1 else "many", True, "plural")
    for d in ("0.5", "1.5", "2.5", "0.1", "10.5"):
        yield call("plural", d, "one", "many"), "many", True, "plural"
    yield call("plural", " 1 ", " one ", " many "), "one", True, "plural"
    yield call("plural", 1, "one"), "one", True, "plural"
    yield call("plural", 2, "one"), "", True, "plural"


STRFNS = ["#len", "#pos", "#rpos", "#sub", "#replace", "#explode",
          "#titleparts", "padleft", "padright"]


def strfn_shard(idx, nshards, maxlen, quick, known):
    env.setup()
    part = Part()
    ctx = env.new_ctx()
    ctx.start_page("Test")
    buckets = {}
    n = 0

    def gen():
        for fn in STRFNS:
            yield from ((fn,) + c for c in strfn_cases(fn, maxlen, quick))
        for c in case_fns():
            yield ("case",) + c
        for c in url_cases():
            yield ("url",) + c
        for c in plural_cases():
            yield ("plural",) + c

    for fn, text, want, nt, cls in gen():
        n += 1
        if n % nshards != idx:
            continue
        if part.evaluations % 2000 == 0:
            ctx.start_page("Test")
        try:
            got = ctx.expand(text)
        except Exception as e:
            got = None
            sig = {"part": "strfn", "fn": fn, "kind": "exception",
                   **exc_bucket(e)}
            what = f"{text} raised {exc_text(e)}"
        else:
            if got != want:
                sig = {"part": "strfn", "fn": fn, "kind": "value",
                       "class": cls}
                what = f"{text} = {got!r}, reference definition gives {want!r}"
        part.evaluations += 1
        part.classes["fn:" + cls.split(":")[0]] += 1
        if nt:
            part.nontrivial.add(h(text))
            if len(part.samples) < 6 and part.evaluations % 997 == 1:
                part.samples.append({"call": text, "value": want})
        if got != want:
            rep = {"kind": "strfn", "fn": fn, "text": text, "want": want}
            hit = False
            for k in known:
                if sig_matches(k["signature"], sig):
                    if not part.excluded[k["id"]]:
                        part.violation(sig, what, rep)
                    part.excluded[k["id"]] += 1
                    hit = True
                    break
            if not hit:
                key = h(sig)
                if key not in buckets or len(text) < len(buckets[key][2]["text"]):
                    buckets[key] = (sig, what, rep)
    ctx.close_db_conn()
    for sig, what, rep in buckets.values():
        part.violation(sig, what, rep)
    return part.to_dict()


# --------------------------------------------------------------- formatnum
def locales():
    d = env.REPO_SRC / "wikitextprocessor" / "data"
    out = []
    for p in sorted(d.glob("*/localization.json")):
        out.append((p.parent.name, json.loads(p.read_text())))
    return out


def numerals_exhaustive(max_int_digits):
    for n in range(1, max_int_digits + 1):
        lo = 10 ** (n - 1) if n > 1 else 0
        step = 1 if n <= 3 else 7
        for v in range(lo, 10 ** n, step):
            yield str(v)


def formatnum_shard(idx, nshards, seed, quick, known):
    env.setup()
    import random

    part = Part()
    locs = locales()
    default_loc = {"decimal_point": ".", "grouping_separator": ",",
                   "grouping_method": [3, 0]}
    todo = [(c, l) for i, (c, l) in enumerate(locs) if i % nshards == idx]
    if idx == 0:
        todo.append(("aa", default_loc))  # ships no localization.json
    buckets = {}
    for code, loc in todo:
        ctx = env.new_ctx(lang_code=code)
        ctx.start_page("Test")
        rnd = random.Random(seed * 7919 + sum(map(ord, code)))
        nums = list(numerals_exhaustive(3 if quick else 4))
        for _ in range(150 if quick else 3000):
            nd = rnd.randint(1, 12)
            ip = str(rnd.randint(1, 9)) + "".join(
                rnd.choice("0123456789") for _ in range(nd - 1))
            fd = rnd.randint(0, 4)
            nums.append(ip + ("." + "".join(rnd.choice("0123456789")
                                             for _ in range(fd)) if fd else ""))
        nums += ["0", "0.5", "1000", "1000.0001", "999999999999",
                 "1234567.891", "100000", "12345.6789", "007", "1234.5"]
        for k, x in enumerate(nums):
            if k % 1000 == 0:
                ctx.start_page("Test")
            want_f = pfn.f_formatnum(x, loc)
            try:
                f = ctx.expand("{{formatnum:" + x + "}}")
                r = ctx.expand("{{formatnum:" + f + "|R}}")
                nosep = ctx.expand("{{formatnum:" + x + "|NOSEP}}")
            except Exception as e:
                sig = {"part": "formatnum", "kind": "exception",
                       **exc_bucket(e)}
                buckets.setdefault(h(sig), (sig, f"formatnum:{x} ({code}) "
                                            f"raised {exc_text(e)}",
                                            {"kind": "formatnum", "lang": code,
                                             "x": x}))
                continue
            ip = x.split(".")[0]
            part.case(h((code, x)), len(ip) >= 4,
                      classes=["formatnum",
                               "formatnum-sep:" + repr(loc["grouping_separator"])],
                      sample={"lang": code, "x": x, "formatted": f, "R": r})
            bad = None
            if r != x:
                bad = ("roundtrip", f"lang {code}: formatnum:{x} = {f!r}, "
                       f"formatnum:{f}|R = {r!r}, expected {x!r}")
            elif f != want_f:
                bad = ("grouping", f"lang {code}: formatnum:{x} = {f!r}, "
                       f"locale rules give {want_f!r}")
            elif nosep.replace(loc["decimal_point"], ".") != x:
                bad = ("nosep", f"lang {code}: formatnum:{x}|NOSEP = {nosep!r}")
            if bad:
                sig = {"part": "formatnum", "kind": bad[0],
                       "sep": loc["grouping_separator"],
                       "decimal": loc["decimal_point"],
                       "fraction": "." in x}
                rep = {"kind": "formatnum", "lang": code, "x": x}
                hit = False
                for kf in known:
                    if sig_matches(kf["signature"], sig):
                        if not part.excluded[kf["id"]]:
                            part.violation(sig, bad[1], rep)
                        part.excluded[kf["id"]] += 1
                        hit = True
                        break
                if not hit:
                    key = h(sig)
                    if key not in buckets or len(x) < len(buckets[key][2]["x"]):
                        buckets[key] = (sig, bad[1], rep)
        ctx.close_db_conn()
    for sig, what, rep in buckets.values():
        part.violation(sig, what, rep)
    return part.to_dict()


# ------------------------------------------------------------------- driver
def run(run):
    quick = run.tier == "quick"
    procs = par.nprocs(run.tier)
    for d in par.map_shards(expr_shard,
                            [(i, procs, run.seed, 600 if quick else 40000,
                              run.known) for i in range(procs)], procs):
        run.merge(d)
    maxlen = 3 if quick else 5
    for d in par.map_shards(strfn_shard,
                            [(i, procs, maxlen, quick, run.known)
                             for i in range(procs)], procs):
        run.merge(d)
    for d in par.map_shards(formatnum_shard,
                            [(i, procs, run.seed, quick, run.known)
                             for i in range(procs)], procs):
        run.merge(d)
    run.exhaustive = True
    run.rule = (
        "(a) #expr: every ordered pair of the 19 binary operators in both "
        "association shapes and every prefix operator against every binary "
        "operator in three positions (exhaustive), plus Hypothesis ASTs to "
        "depth 5; each AST is rendered with minimal parentheses (documented "
        "precedence table, left associativity), with full parentheses, and "
        "both again with random blanks and letter case; all four must equal "
        "the value of a textbook evaluator (rel. tol. 1e-9). ASTs on which "
        "the reference declines (division by zero, domain / range errors, "
        "rounding ties, mod outside non-negative integers, values within 1e-7 "
        "of a discontinuity) are dropped and counted. (b) all strings over "
        f"'abc ' to length {maxlen} x needles to length 2 x offsets/lengths in "
        "[-10,10] for #len #pos #rpos #sub #replace #explode #titleparts "
        "padleft padright against reference definitions transcribed from the "
        "StringFunctions help page; lc/uc/lcfirst/ucfirst over a Unicode "
        "sample; urlencode against the documented encodings and "
        "#urldecode(urlencode(s)) == s for QUERY/PATH/WIKI. (c) plural over "
        "0..30, 100, 101, 1000 and decimals. (d) formatnum for all shipped "
        "localization.json files and the default: formatnum(formatnum(x),R) "
        "== x, grouping per the locale's grouping_method, NOSEP, for all "
        "numerals to 3 (quick) / 4 (thorough, stride 7 above 3) integer "
        "digits and random numerals to 12 integer + 4 fraction digits. "
        "Non-trivial: (a) >= 2 different binary operators of different "
        "precedence; (b) offset/length negative or beyond the string, or "
        "repeated needle; (d) >= 4 integer digits."
    )
    run.assumptions = [
        "needles / replacements carry no leading or trailing blanks "
        "(MediaWiki trims every parser-function argument)",
        "#pos offsets are non-negative (negative offsets are undocumented)",
        "#explode limits are non-negative",
        "#titleparts strings start with an upper-case letter and contain no "
        "colon (title normalisation is out of scope)",
        "plural: numerals written with a fraction part equal to zero (1.0) "
        "are excluded (CLDR visible-fraction rule)",
        "fmod is not among the implemented operators and is not generated",
    ]
    run.trusted_base = ["refs/pfn.py"]


def replay(run, case):
    env.setup()
    kind = case["kind"]
    if kind == "expr":
        ctx = env.new_ctx()
        ctx.start_page("Test")

        def fix(a):
            return tuple(fix(x) if isinstance(x, list) else x for x in a)

        ast = fix(case["ast"])
        status, detail, texts = expr_case(ctx, ast, case.get("gaps") or [1],
                                          case.get("cases") or [0])
        ctx.close_db_conn()
        run.case(h(repr(ast)), True, sample=texts)
        if status == "viol":
            run.violation(detail[0], detail[1], case)
    elif kind == "strfn":
        ctx = env.new_ctx()
        ctx.start_page("Test")
        try:
            got = ctx.expand(case["text"])
        except Exception as e:
            run.violation({"part": "strfn", "fn": case["fn"],
                           "kind": "exception", **exc_bucket(e)},
                          f"{case['text']} raised {exc_text(e)}", case)
            got = case["want"]
        ctx.close_db_conn()
        run.case(h(case["text"]), True, sample={"call": case["text"]})
        if got != case["want"]:
            run.violation({"part": "strfn", "fn": case["fn"], "kind": "value",
                           "class": case.get("class", case["fn"])},
                          f"{case['text']} = {got!r}, reference definition "
                          f"gives {case['want']!r}", case)
    elif kind == "formatnum":
        code, x = case["lang"], case["x"]
        loc = dict(locales()).get(code) or {
            "decimal_point": ".", "grouping_separator": ",",
            "grouping_method": [3, 0]}
        ctx = env.new_ctx(lang_code=code)
        ctx.start_page("Test")
        f = ctx.expand("{{formatnum:" + x + "}}")
        r = ctx.expand("{{formatnum:" + f + "|R}}")
        ctx.close_db_conn()
        run.case(h((code, x)), True, sample={"lang": code, "x": x,
                                             "formatted": f, "R": r})
        if r != x or f != pfn.f_formatnum(x, loc):
            run.violation({"part": "formatnum",
                           "kind": "roundtrip" if r != x else "grouping",
                           "sep": loc["grouping_separator"],
                           "decimal": loc["decimal_point"],
                           "fraction": "." in x},
                          f"lang {code}: formatnum:{x} = {f!r}, R -> {r!r}",
                          case)
