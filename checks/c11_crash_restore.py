"""C11 — restoring the page database from its backup is crash-safe
(fault enumeration: every executed source line of the backup / overwrite /
commit / close / restore code as a kill point)."""

import json
import os
import shutil
import signal
import sys
import tempfile
import time

from vlib import env, par
from vlib.run import Part, h, sig_matches

TRACED = {
    "core.py": {"create_db", "backup_db", "close_db_conn", "add_page",
                "backup_db_path"},
    "dumpparser.py": {"overwrite_pages", "overwrite_single_page",
                      "analyze_and_overwrite_pages"},
}
N_PAGES = 50


def v1_pages(big=False):
    pad = ("lorem ipsum " * 6000) if big else ""
    pages = {("P%d" % i, 0): "v1 body %d %s" % (i, pad) for i in range(N_PAGES)}
    pages[("Template:T", 10)] = "v1 template {{{1}}}"
    pages[("Module:M", 828)] = "return {v = 1}"
    return pages


def v2_overrides():
    ov = {}
    for i in range(0, N_PAGES, 2):
        ov["P%d" % i] = {"namespace_id": 0, "body": "v2 NEW body %d" % i}
    ov["Template:T"] = {"namespace_id": 10, "body": "v2 template"}
    ov["Extra"] = {"namespace_id": 0, "body": "v2 extra page"}
    return ov


UNCOMMITTED_TAIL = [("P%d" % i, 0) for i in range(N_PAGES - 5, N_PAGES)]


def v1a_pages(big=False):
    p = dict(v1_pages(big))
    for k in UNCOMMITTED_TAIL:
        del p[k]
    return p


def v3_overrides():
    ov = {}
    for i in range(1, N_PAGES, 3):
        ov["P%d" % i] = {"namespace_id": 0, "body": "v3 THIRD body %d" % i}
    ov["Template:T"] = {"namespace_id": 10, "body": "v3 template"}
    ov["Extra3"] = {"namespace_id": 0, "body": "v3 extra page"}
    return ov


def v2_pages(big=False):
    p = dict(v1_pages(big))
    for t, d in v2_overrides().items():
        p[(t, d["namespace_id"])] = d["body"]
    return p


class Killer:
    """Line tracer restricted to the named functions; exits the process
    (no cleanup) at the k-th line event.  In the dry run (kill_at None) it
    records, for every line event, what an independent observer connection
    sees in the database at that moment, and the returns of backup_db /
    create_db (a backup comes into force when backup_db returns; it is
    consumed when a create_db that found it returns)."""

    def __init__(self, kill_at=None, observe=None):
        self.n = 0
        self.kill_at = kill_at
        self.events = []
        self.active = True
        self.observe = observe
        self.seen = []        # observer classification before line event i+1
        self.returns = []     # (function name, number of line events so far,
        #                        observer classification, backup existed at call)
        self.calls = {}

    def local(self, frame, event, arg):
        if not self.active:
            return self.local
        if event == "line":
            self.n += 1
            if self.kill_at is None:
                self.events.append((frame.f_code.co_name, frame.f_lineno))
                if self.observe:
                    self.active = False
                    try:
                        self.seen.append(self.observe())
                    finally:
                        self.active = True
            elif self.n == self.kill_at:
                os._exit(99)
        elif event == "return" and self.kill_at is None and self.observe \
                and frame.f_code.co_name in ("backup_db", "create_db") \
                and arg is None and sys.exc_info()[0] is None:
            self.active = False
            try:
                self.returns.append((frame.f_code.co_name, self.n,
                                     self.observe(),
                                     self.calls.pop(id(frame), False)))
            finally:
                self.active = True
        return self.local

    def glob(self, frame, event, arg):
        if event != "call":
            return None
        co = frame.f_code
        base = os.path.basename(co.co_filename)
        names = TRACED.get(base)
        if names and co.co_name in names and "wikitextprocessor" in co.co_filename:
            if co.co_name == "create_db" and self.observe and self.active:
                self.calls[id(frame)] = self.observe("backup-exists")
            return self.local
        return None


def make_observer(d, big):
    """What another connection sees right now (last committed content)."""
    import sqlite3

    db = os.path.join(d, "pages.db")
    bk = os.path.join(d, "pages_backup.db")

    def observe(what=None):
        if what == "backup-exists":
            return os.path.exists(bk)
        if not os.path.exists(db):
            return "no-file"
        try:
            con = sqlite3.connect(db, timeout=5)
            try:
                rows = list(con.execute(
                    "SELECT title, namespace_id, body FROM pages"))
            finally:
                con.close()
        except sqlite3.Error as e:
            return "unreadable:" + type(e).__name__
        return classify([((t, ns), b) for t, ns, b in rows
                         if not t.endswith("_sandbox_phase1")], big)

    return observe


def life(d, variant, flow, kill_at, big, ready_path=None):
    """The scripted life-cycle; runs in a child.  Returns the list of line
    events when kill_at is None."""
    env.setup()
    from wikitextprocessor import Wtp, dumpparser

    db = os.path.join(d, "pages.db")
    ovf = os.path.join(d, "overrides.json")
    with open(ovf, "w") as f:
        json.dump(v2_overrides(), f)
    # phase 0 (not traced): the v1 database
    ctx = Wtp(db_path=db, quiet=True, quiet_output=True)
    tail = set(UNCOMMITTED_TAIL) if variant == "uncommitted-tail" else set()
    for (t, ns), body in v1_pages(big).items():
        if (t, ns) not in tail:
            ctx.add_page(t, ns, body,
                         model="Scribunto" if ns == 828 else "wikitext")
    ctx.db_conn.commit()
    for (t, ns), body in v1_pages(big).items():
        if (t, ns) in tail:
            # written but not committed when the override flow starts: the
            # backup's own commit makes them part of the backed-up content
            ctx.add_page(t, ns, body)
    if variant == "checkpointed":
        ctx.close_db_conn()
        ctx = Wtp(db_path=db, quiet=True, quiet_output=True)
    # else: committed frames are still pending in the write-ahead log
    if ready_path:
        with open(ready_path, "w") as f:
            f.write("phase 0 done")
    k = Killer(kill_at, make_observer(d, big) if kill_at is None else None)
    sys.settrace(k.glob)
    try:
        from pathlib import Path

        if flow == "backup":
            dumpparser.analyze_and_overwrite_pages(ctx, [Path(ovf)], True, None)
        elif flow == "double-backup":
            # a second override round on the same context: the second backup
            # (content v2) supersedes the first (content v1)
            dumpparser.analyze_and_overwrite_pages(ctx, [Path(ovf)], True, None)
            ovf3 = os.path.join(d, "overrides3.json")
            with open(ovf3, "w") as f:
                json.dump(v3_overrides(), f)
            dumpparser.analyze_and_overwrite_pages(ctx, [Path(ovf3)], True,
                                                   None)
        else:
            dumpparser.analyze_and_overwrite_pages(ctx, [Path(ovf)], False, None)
        ctx.close_db_conn()
        ctx2 = Wtp(db_path=db, quiet=True, quiet_output=True)  # restore
        n = sum(1 for _ in ctx2.get_all_pages())
        ctx2.close_db_conn()
    finally:
        sys.settrace(None)
    if kill_at is None:
        final = make_observer(d, big)()
        return {"events": k.events, "seen": k.seen, "returns": k.returns,
                "final": final}
    return None


def expected_at(rec, k):
    """Content a pristine open must find after a kill just before line event
    k (k None = no kill): the content at the completion of the latest backup
    that is still in force, else the last committed content."""
    if k is None:
        return rec["final"]
    in_force = None
    for fn, n, seen, had_backup in rec["returns"]:
        if n >= k:
            break          # returned at or after the kill point
        if fn == "backup_db":
            in_force = seen
        elif fn == "create_db" and had_backup:
            in_force = None    # the restore consumed it
    if in_force is not None:
        return in_force
    return rec["seen"][k - 1]


def recovery_open(d, kill_at):
    """Second-level fault: the recovering open is itself killed."""
    env.setup()
    from wikitextprocessor import Wtp

    db = os.path.join(d, "pages.db")
    k = Killer(kill_at)
    sys.settrace(k.glob)
    try:
        ctx = Wtp(db_path=db, quiet=True, quiet_output=True)
        ctx.close_db_conn()
    finally:
        sys.settrace(None)
    return k.events


def verify(d):
    """Pristine process: what does opening the path give?"""
    env.setup()
    from wikitextprocessor import Wtp

    db = os.path.join(d, "pages.db")
    files = sorted(x for x in os.listdir(d)
                   if x not in ("ready.marker", "overrides3.json"))
    ctx = Wtp(db_path=db, quiet=True, quiet_output=True)
    try:
        integ = [r[0] for r in ctx.db_conn.execute("PRAGMA integrity_check")]
        pages = {}
        for p in ctx.get_all_pages():
            if p.title.endswith("_sandbox_phase1"):
                continue
            pages[(p.title, p.namespace_id)] = p.body
    finally:
        try:
            ctx.db_conn.close()
        except Exception:
            pass
    return {"integrity": integ, "pages": sorted(pages.items()),
            "files_before_open": files}


def v3_pages(big=False):
    p = dict(v2_pages(big))
    for t, d in v3_overrides().items():
        p[(t, d["namespace_id"])] = d["body"]
    return p


def classify(pages_list, big):
    pages = dict((tuple(k), v) for k, v in pages_list)
    if pages == v1_pages(big):
        return "v1"
    if pages == v1a_pages(big):
        return "v1a"
    if pages == v3_pages(big):
        return "v3"
    if not pages:
        return "empty"
    if pages == v2_pages(big):
        return "v2"
    v1 = v1_pages(big)
    nv2 = sum(1 for k, v in pages.items() if isinstance(v, str)
              and v.startswith("v2"))
    missing = len([k for k in v1 if k not in pages])
    return f"other(v2-bodies={nv2},missing={missing},total={len(pages)})"


def one_point(args):
    variant, flow, k, big, commit_event, level2, where = args
    d = tempfile.mkdtemp(prefix="verif-c11-")
    out = []
    try:
        status, r, el = par.fork_child(life, (d, variant, flow, k, big),
                                       timeout=120)
        if status == "timeout":
            return [("harness", "life-cycle child timed out", None)], 0
        # died with 99 = killed at the point; ok = ran to completion
        expected = commit_event   # the expected content, from the dry run
        sub = 0
        if level2:
            # enumerate kill points of the recovering open as well
            st2, ev2, _ = par.fork_child(recovery_dry, (d,), timeout=60)
            n2 = ev2 if st2 == "ok" else 0
            for j in range(1, n2 + 1):
                d2 = d + "-l2"
                shutil.rmtree(d2, ignore_errors=True)
                shutil.copytree(d, d2)
                par.fork_child(recovery_open, (d2, j), timeout=60)
                stv, obs, _ = par.fork_child(verify, (d2,), timeout=60)
                sub += 1
                out += judge(variant, flow, k, j, expected, stv, obs, big,
                             where)
                shutil.rmtree(d2, ignore_errors=True)
        stv, obs, _ = par.fork_child(verify, (d,), timeout=60)
        out += judge(variant, flow, k, None, expected, stv, obs, big, where)
        return out, sub + 1
    finally:
        shutil.rmtree(d, ignore_errors=True)
        shutil.rmtree(d + "-l2", ignore_errors=True)


def recovery_dry(d):
    d2 = d + "-dry"
    shutil.rmtree(d2, ignore_errors=True)
    shutil.copytree(d, d2)
    try:
        return len(recovery_open(d2, None))
    finally:
        shutil.rmtree(d2, ignore_errors=True)


def judge(variant, flow, k, j, expected, status, obs, big, where):
    base = {"variant": variant, "flow": flow, "function": where[0] if where
            else None}
    pt = f"variant={variant} flow={flow} kill@{k} ({where}) level2@{j}"
    if status != "ok":
        return [(dict(base, kind="open-fails"),
                 f"{pt}: opening the database afterwards failed: "
                 f"{str(obs)[:300]}", {"variant": variant, "flow": flow, "k": k,
                                       "j": j, "big": big})]
    res = []
    if obs["integrity"] != ["ok"]:
        res.append((dict(base, kind="integrity"),
                    f"{pt}: integrity_check = {obs['integrity'][:3]!r}",
                    {"variant": variant, "flow": flow, "k": k, "j": j,
                     "big": big}))
    got = classify(obs["pages"], big)
    if got != expected:
        kind = "newer-version-survives" if (got == "v2" or "v2-bodies" in got
                                            and "v2-bodies=0" not in got) \
            else "pages-lost"
        res.append((dict(base, kind=kind),
                    f"{pt}: store holds {got}, expected {expected} (files "
                    f"before the open: {obs['files_before_open']})",
                    {"variant": variant, "flow": flow, "k": k, "j": j,
                     "big": big}))
    return res


def sigkill_point(args):
    """SIGKILL at a drawn delay while the child is inside the C-level backup
    of a multi-megabyte database (no line events exist there)."""
    variant, delay_ms = args
    d = tempfile.mkdtemp(prefix="verif-c11-")
    try:
        ready = os.path.join(d, "ready.marker")
        pid = os.fork()
        if pid == 0:
            try:
                life(d, variant, "backup", None, True, ready)
            finally:
                os._exit(0)
        # the clock starts when the v1 content is committed (phase 0 is the
        # script's set-up, not part of what is being killed)
        t0 = time.time()
        while not os.path.exists(ready) and time.time() - t0 < 60:
            time.sleep(0.002)
        time.sleep(delay_ms / 1000.0)
        try:
            os.kill(pid, signal.SIGKILL)
        except ProcessLookupError:
            pass
        os.waitpid(pid, 0)
        stv, obs, _ = par.fork_child(verify, (d,), timeout=120)
        return judge(variant, "backup", "sigkill@%dms" % delay_ms, None, "v1",
                     stv, obs, True, ("sigkill", delay_ms)), 1
    finally:
        shutil.rmtree(d, ignore_errors=True)


def _runs(seq):
    """Run-length summary of the observer's view, for the evidence file."""
    out = []
    for x in seq:
        if out and out[-1][0] == x:
            out[-1][1] += 1
        else:
            out.append([x, 1])
    return out


def run(run):
    env.setup()
    quick = run.tier == "quick"
    procs = par.nprocs(run.tier)
    jobs = []
    plan = {}
    for variant in ("checkpointed", "pending-wal", "uncommitted-tail"):
        for flow in ("backup", "plain", "double-backup"):
            if variant == "uncommitted-tail" and flow != "backup":
                continue
            d = tempfile.mkdtemp(prefix="verif-c11-")
            try:
                st, events, _ = par.fork_child(life, (d, variant, flow, None,
                                                      False), timeout=120)
            finally:
                shutil.rmtree(d, ignore_errors=True)
            if st == "timeout":
                # the uninterrupted life-cycle itself never finishes (it
                # takes about a second): nothing can be enumerated, and a
                # backup / restore that hangs leaves no usable database
                run.case(h((variant, flow, "dry")), True)
                run.violation({"kind": "life-cycle-hangs", "variant": variant,
                               "flow": flow},
                              f"variant={variant} flow={flow}: the "
                              "uninterrupted backup / overwrite / close / "
                              "reopen script had not finished after 120 s",
                              {"variant": variant, "flow": flow, "k": None,
                               "j": None, "big": False})
                continue
            if st != "ok":
                raise RuntimeError(f"dry run failed: {st} {events!r}")
            rec = events
            events = rec["events"]
            n = len(events)
            plan[(variant, flow)] = {
                "events": n,
                "content_seen_by_observer": _runs(rec["seen"]),
                "backups_and_restores": [(f, i, c) for f, i, c, _ in
                                         rec["returns"]],
                "final": rec["final"]}
            # absolute anchors, known from the script itself (the observer
            # supplies WHERE content becomes durable, not WHAT is right)
            want_final = {"backup": "v1", "plain": "v2",
                          "double-backup": "v2"}[flow]
            bks = [c for f, i, c, _ in rec["returns"] if f == "backup_db"]
            want_bks = {"backup": ["v1"], "plain": [],
                        "double-backup": ["v1", "v2"]}[flow]
            if rec["final"] != want_final or bks != want_bks:
                run.case(h((variant, flow, "anchors")), True)
                run.violation(
                    {"kind": "uninterrupted-run-wrong", "variant": variant,
                     "flow": flow},
                    f"variant={variant} flow={flow}: without any kill the "
                    f"script ends with {rec['final']} (expected {want_final})"
                    f" and its backups held {bks} (expected {want_bks})",
                    {"variant": variant, "flow": flow, "k": None, "j": None,
                     "big": False})
                continue
            pts = list(range(1, n + 1))
            if quick:
                # every distinct (function, line) once + every 5th event
                seen = set()
                sel = []
                for i, e in enumerate(events, 1):
                    if e not in seen or i % 5 == 0:
                        seen.add(e)
                        sel.append(i)
                pts = sel
            # first-level points whose recovery is itself enumerated in the
            # quick tier too: right after the backup, in the middle of the
            # overwrite, right after its commit, at the start of the close
            strategic = set()
            if flow == "backup":
                for fn_name, pick in (("backup_db", -1), ("overwrite_pages", -1),
                                      ("close_db_conn", 0),
                                      ("overwrite_single_page", 0)):
                    idx = [i for i, e in enumerate(events, 1) if e[0] == fn_name]
                    if idx:
                        strategic.add(idx[pick])
                        strategic.add(min(n, idx[pick] + 1))
                mid = [i for i, e in enumerate(events, 1) if e[0] == "add_page"]
                if mid:
                    strategic.add(mid[len(mid) // 2])
            pts = sorted(set(pts) | strategic)
            for k in pts:
                level2 = flow == "backup" and (
                    k in strategic or ((not quick) and k % 3 == 0))
                jobs.append((variant, flow, k, False, expected_at(rec, k),
                             level2, events[k - 1]))
            jobs.append((variant, flow, None, False, expected_at(rec, None),
                         False, ("no-kill", 0)))
    res = par.map_shards(one_point, [(j,) for j in jobs], procs)
    for job, (viols, evals) in zip(jobs, res):
        variant, flow, k, big, ce, level2, where = job
        run.evaluations += evals
        run.classes["fn:" + str(where[0])] += 1
        run.classes["variant:" + variant] += 1
        run.classes["flow:" + flow] += 1
        if level2:
            run.classes["with-second-level-faults"] += 1
        if k is not None and k > 1:
            run.nontrivial.add(h((variant, flow, k)))
        if len(run.samples) < 10 and k is not None and k % 17 == 0:
            run.samples.append({"variant": variant, "flow": flow,
                                "kill_at_event": k, "function": where[0],
                                "line": where[1]})
        for sig, what, rep in viols:
            if sig == "harness":
                run.inconclusive = True
                continue
            run.violation(sig, what, rep)
    # C-level backup window on a bigger database
    if not quick:
        import random

        rnd = random.Random(run.seed)
        sj = [(v, rnd.randint(0, 400)) for v in ("checkpointed", "pending-wal")
              for _ in range(40)]
        for job, (viols, evals) in zip(sj, par.map_shards(
                sigkill_point, [(j,) for j in sj], max(2, procs // 2))):
            run.evaluations += evals
            run.classes["sigkill-during-life-cycle"] += 1
            run.nontrivial.add(h(job))
            for sig, what, rep in viols:
                run.violation(sig, what, rep)
    run.exhaustive = not quick
    run.extra["line_events"] = {f"{v}/{f}": p for (v, f), p in plan.items()}
    run.rule = (
        "A scripted life-cycle in a child process on a database in a fresh "
        "directory: create + 52 pages v1 + commit (variant: closed and "
        "reopened so the WAL is checkpointed / committed frames still pending "
        "in the WAL / the last five pages written but not yet committed), then "
        "the real dumpparser.analyze_and_overwrite_pages "
        "with skip_extract_dump=True (backup, then overwrite 27 pages to v2 + "
        "commit) or False (no backup), or twice in a row with backup (second "
        "backup of content v2, then overwrite to v3), close_db_conn, reopen "
        "(restore), read. "
        "The child runs under a line tracer restricted to create_db, "
        "backup_db, close_db_conn, add_page, backup_db_path, overwrite_pages, "
        "overwrite_single_page, analyze_and_overwrite_pages and os._exit()s "
        "at the k-th line event, for every k (thorough; quick: every "
        "distinct source line once plus every 5th event); the recovering open "
        "is itself killed at each of its line events for ~10 strategic "
        "first-level points (after the backup, mid-overwrite, after the "
        "overwrite's commit, at the close) and in the thorough tier for "
        "every third first-level point; thorough also SIGKILLs at 80 drawn delays during the "
        "life-cycle on a ~4 MB database. Oracle, from a pristine process "
        "opening the path: no exception, PRAGMA integrity_check = ok, and the "
        "page map equals the content at the completion of the latest backup "
        "still in force, else the last committed content - both taken from "
        "the uninterrupted run, where an independent observer connection "
        "records at every line event what is durably committed, a backup "
        "comes into force when backup_db returns and is consumed when a "
        "create_db that found it returns (function names only, no source "
        "lines); the uninterrupted run itself is anchored to the script "
        "(final content and content of each backup); with two "
        "backups v1 until the second backup is moved into place and v2 from "
        "then on; with an uncommitted tail the committed part of v1 until the "
        "backup's own commit and all of v1 after it. Non-trivial = "
        "kill points after the first traced line."
    )
    run.assumptions = [
        "process kill, not power loss: file-system state is whatever the "
        "system calls left",
        "a trace 'line' event fires before the line executes, so a kill at "
        "the commit line counts the commit as not done",
    ]
    run.trusted_base = ["sys.settrace line events", "SQLite"]


def replay(run, case):
    env.setup()
    variant, flow, k, j, big = (case["variant"], case["flow"], case["k"],
                                case.get("j"), case.get("big", False))
    d = tempfile.mkdtemp(prefix="verif-c11-")
    try:
        st, events, _ = par.fork_child(life, (d, variant, flow, None, big),
                                       timeout=120)
    finally:
        shutil.rmtree(d, ignore_errors=True)
    rec = events
    events = rec["events"]
    ce = expected_at(rec, k if not isinstance(k, str) else None)
    if isinstance(k, str):
        viols, _ = sigkill_point((variant, int(k.split("@")[1][:-2])))
    else:
        where = events[k - 1] if k else ("no-kill", 0)
        viols, _ = one_point((variant, flow, k, big, ce, j is not None, where))
    run.case(h((variant, flow, k, j)), True, sample=case)
    for sig, what, rep in viols:
        if sig != "harness":
            run.violation(sig, what, rep)
