"""C15 — nowiki content and comments are inert and recoverable."""

import html
import re

from hypothesis import strategies as st

from gens import soup
from refs import tree as rtree
from vlib import env, hyp, par
from vlib.bucket import exc_bucket, exc_text
from vlib.run import Part, h, sig_matches

# Transcribed from the comment / table in common.py ("Mappings performed for
# text inside <nowiki>...</nowiki>") — the documented entity table.
ENTITY = {
    "=": "&equals;", "<": "&lt;", ">": "&gt;", "*": "&ast;", "#": "&num;",
    ":": "&colon;", "!": "&excl;", "|": "&vert;", "[": "&lsqb;",
    "]": "&rsqb;", "{": "&lbrace;", "}": "&rbrace;", '"': "&quot;",
    "'": "&apos;", "_": "&#95;",
}
CLOSE_RE = re.compile(r"(?i)</nowiki\s*>")
Q = "QZQXQ"

EXTRA = ["<!-- x -->", "<!--", "-->", "\n<!-- c -->", "{{echo|x}}",
         "{{echo|a|b}}", "[[L|t]]", "<nowiki>", "<nowiki/>", "<NOWIKI>",
         "</nowik>", "{{{1}}}", "|", "=", "}}", "]]", "k=v",
         "UNIQ--nowiki-00000001-QINU", "\x7fUNIQ--nowiki-0-QINU\x7f",
         "</ nowiki>", "<pre>", "</pre>", "~~~~", "{{#if:x|y|z}}",
         "{{#invoke:m|f}}", "\n* li", "\n== h ==\n", "{|\n|c\n|}", "''i''"]


def quote(c):
    return "".join(ENTITY.get(ch, ch) for ch in c)


def c_strategy(max_tokens=10):
    tok = st.one_of(soup.token(), st.sampled_from(EXTRA))
    return st.lists(tok, min_size=1, max_size=max_tokens).map("".join).filter(
        lambda c: c != "" and "&" not in c and not CLOSE_RE.search(c)
        and not rtree.has_placeholder(c))


# context name -> (prefix, suffix, explicit expected expansion or None)
CONTEXTS = {
    "top": ("", "", lambda q: q),
    "top-mid": ("pre ", " post", lambda q: "pre " + q + " post"),
    "pos-arg": ("{{echo|", "}}", lambda q: "[" + q + "]"),
    "pos-arg-mid": ("{{echo3|x|", "|y}}", lambda q: "[x/" + q + "/y]"),
    "named-arg": ("{{echok|k= ", " }}", lambda q: "[" + q + "]"),
    "link-text": ("[[T|", "]]", lambda q: "[[T|" + q + "]]"),
    "list-item": ("* ", "\n* z", lambda q: "* " + q + "\n* z"),
    "table-cell": ("{|\n| ", "\n| z\n|}",
                   lambda q: "{|\n| " + q + "\n| z\n|}"),
    "pfn-arg": ("{{#if:x| ", " }}", lambda q: q),
    "pfn-switch": ("{{#switch:a|a=", "|b=no}}", lambda q: q),
    "heading": ("== ", " ==", None),
    "html": ("<span class=\"k\">", "</span>", None),
    "italic": ("''", "''", None),
    "nested-arg": ("{{echo|{{echo|", "}}}}", lambda q: "[[" + q + "]]"),
    # the nowiki span is the very first thing of a template's expansion (the
    # place where an expansion starting with a list / table marker gets a
    # line break prepended - inert content must not count as such a start)
    "bare-arg": ("x{{bare|", "}}y", lambda q: "x" + q + "y"),
    "bare-arg-first": ("{{bare|", "}} tail", lambda q: q + " tail"),
    "bare-arg-nested": ("x{{bare|{{bare|", "}}}}y", lambda q: "x" + q + "y"),
}


def install(ctx):
    ctx.add_page("Template:echo", 10, "[{{{1}}}]")
    ctx.add_page("Template:echo3", 10, "[{{{1}}}/{{{2}}}/{{{3}}}]")
    ctx.add_page("Template:echok", 10, "[{{{k}}}]")
    ctx.add_page("Template:bare", 10, "{{{1}}}")
    ctx.add_page("Template:t", 10, "T-BODY")
    ctx.add_page("Template:L", 10, "L-BODY")


def subst(x, q):
    if isinstance(x, str):
        return x.replace(Q, q)
    if isinstance(x, tuple):
        return tuple(subst(y, q) for y in x)
    return x


def run_ctx(ctx, text):
    """(expansion, template_fn log, strict tree) of text on a fresh page."""
    from wikitextprocessor.parser import WikiNode

    log = []

    def tfn(name, ht):
        log.append((name, tuple(sorted((str(k), v) for k, v in ht.items()))))
        return None

    ctx.start_page("Test")
    e = ctx.expand(text, template_fn=tfn)
    ctx.start_page("Test")
    t = rtree.strict(ctx.parse(text), WikiNode)
    return e, tuple(log), t


SPELLINGS = [("<nowiki>", "</nowiki>"), ("<NOWIKI>", "</NOWIKI>"),
             ("<nowiki >", "</nowiki >"), ("<Nowiki>", "</noWiki\n>")]


def nowiki_case(ctx, c, cname, spelling=0):
    """Returns list of (sig, what) violations for content c in context."""
    pre, suf, explicit = CONTEXTS[cname]
    q = quote(c)
    out = []
    op, cl = SPELLINGS[spelling % len(SPELLINGS)]
    text_c = pre + op + c + cl + suf
    text_q = pre + op + Q + cl + suf
    try:
        e_c, log_c, t_c = run_ctx(ctx, text_c)
    except Exception as e:
        return [({"part": "nowiki", "kind": "exception", "context": cname,
                  **exc_bucket(e)}, f"{text_c!r} raised {exc_text(e)}")]
    e_q, log_q, t_q = run_ctx(ctx, text_q)
    if html.unescape(q) != c:
        raise AssertionError("harness: entity table does not round-trip")
    if cname == "top":
        if e_c != q:
            out.append(({"part": "nowiki", "kind": "entity-table",
                         "context": cname},
                        f"expand({text_c!r}) = {e_c!r}, documented entity "
                        f"table gives {q!r}"))
        elif html.unescape(e_c) != c:
            out.append(({"part": "nowiki", "kind": "not-recoverable",
                         "context": cname},
                        f"decoding expand({text_c!r}) gives "
                        f"{html.unescape(e_c)!r}"))
        kids = t_c[4]
        if kids != (q,):
            out.append(({"part": "nowiki", "kind": "parse-not-single-text",
                         "context": cname},
                        f"parse({text_c!r}).children = {kids!r}, expected "
                        f"the single text node {q!r}"))
    if explicit is not None and e_c != explicit(q) and cname != "top":
        out.append(({"part": "nowiki", "kind": "expand-embedded",
                     "context": cname},
                    f"expand({text_c!r}) = {e_c!r}, expected "
                    f"{explicit(q)!r}"))
    if e_c != subst(e_q, q):
        out.append(({"part": "nowiki", "kind": "expand-not-opaque",
                     "context": cname},
                    f"expand({text_c!r}) = {e_c!r}; with the content replaced "
                    f"by an inert word and substituted back: "
                    f"{subst(e_q, q)!r}"))
    if log_c != subst(log_q, q):
        out.append(({"part": "nowiki", "kind": "template-called",
                     "context": cname},
                    f"{text_c!r}: template_fn saw {log_c!r}, with inert "
                    f"content {subst(log_q, q)!r}"))
    if t_c != subst(t_q, q):
        out.append(({"part": "nowiki", "kind": "parse-not-opaque",
                     "context": cname},
                    f"parse({text_c!r}) differs from the parse with inert "
                    f"content substituted back: {str(t_c)[:150]} vs "
                    f"{str(subst(t_q, q))[:150]}"))
    return out


# ------------------------------------------------------------------ comments
def seg_strategy():
    plain_tok = st.one_of(soup.token(), st.sampled_from(
        ["{{echo|", "}}", "|", "[[T|", "]]", "\n* ", "\n| ", "{|\n", "\n|}",
         "{{#if:x|", "k=", "\n== h ==\n", "word", " "])).filter(
        lambda t: "<!--" not in t and "-->" not in t
        and "nowiki" not in t.lower() and not rtree.has_placeholder(t))
    text = st.lists(plain_tok, min_size=0, max_size=6).map(
        lambda ts: ("text", "".join(ts)))
    cbody_tok = st.one_of(soup.token(), st.sampled_from(
        ["{{echo|x}}", "|", "}}", "\n", "--", "-", ">", "->", "<!--", "<",
         "[[a]]", "== h ==", "* x", "|}", "''"])).filter(
        lambda t: "-->" not in t and "nowiki" not in t.lower()
        and not rtree.has_placeholder(t))
    comment = st.tuples(
        st.booleans(),
        st.lists(cbody_tok, min_size=0, max_size=5).map("".join).filter(
            lambda b: "-->" not in b),
    ).map(lambda t: ("comment", t[0], t[1]))
    nowiki = c_strategy(4).map(lambda c: ("nowiki", c))
    return st.lists(st.one_of(text, comment, comment, nowiki), min_size=1,
                    max_size=7)


def render_doc(segs):
    """(document, document with comments deleted, number of comments)."""
    full = []
    without = ""
    n = 0
    # True when the character directly before the current position is a
    # line break that belongs to a text segment (not to a nowiki span, not
    # to an already deleted comment)
    tail_nl = False
    for s in segs:
        if s[0] == "text":
            if s[1]:
                full.append(s[1])
                without += s[1]
                tail_nl = s[1].endswith("\n")
        elif s[0] == "nowiki":
            w = "<nowiki>" + s[1] + "</nowiki>"
            full.append(w)
            without += w
            tail_nl = False
        else:
            n += 1
            nl = "\n" if s[1] else ""
            full.append(nl + "<!--" + s[2] + "-->")
            # "(and the line break directly before it) deleted": all
            # deletions are made on the original text at once
            if not nl and tail_nl:
                without = without[:-1]
            tail_nl = False
    return "".join(full), without, n


def comment_domain_ok(segs, full, without):
    """Comments only outside nowiki spans and closed; deleting them must not
    assemble a new comment opener from the pieces."""
    bare = re.sub(r"(?si)<nowiki\s*>.*?</nowiki\s*>", "", without)
    if "<!--" in bare:
        return False
    # the written comments must be exactly what a left-to-right scan finds
    scan = re.sub(r"(?si)<nowiki\s*>.*?</nowiki\s*>", "\0", full)
    found = re.findall(r"(?s)<!--.*?-->", scan)
    want = ["<!--" + s[2] + "-->" for s in segs if s[0] == "comment"]
    return found == want


def comment_case(ctx, segs):
    from wikitextprocessor.parser import WikiNode

    full, without, n = render_doc(segs)
    if n == 0 or not comment_domain_ok(segs, full, without):
        return "ood", None, full
    res = []
    for text in (full, without):
        try:
            ctx.start_page("Test")
            e = ctx.expand(text)
            ctx.start_page("Test")
            t = rtree.strict(ctx.parse(text), WikiNode)
        except Exception as e:
            return "viol", ({"part": "comment", "kind": "exception",
                             **exc_bucket(e)},
                            f"{text!r} raised {exc_text(e)}"), full
        res.append((e, t))
    if res[0][0] != res[1][0]:
        return "viol", ({"part": "comment", "kind": "expand-differs"},
                        f"expand({full!r}) = {res[0][0]!r} but with the "
                        f"comments deleted ({without!r}) = {res[1][0]!r}"), full
    if res[0][1] != res[1][1]:
        return "viol", ({"part": "comment", "kind": "parse-differs"},
                        f"parse({full!r}) differs from parse({without!r})"), full
    return "ok", None, full


# -------------------------------------------------------------------- driver
def nontrivial_c(c, cname):
    cl = soup.struct_classes(c)
    if len(cl) >= 2:
        return True
    return cname not in ("top", "top-mid") and any(x in c for x in "|=}")


def shard(idx, seed, n_nowiki, n_comment, known):
    env.setup()
    part = Part()
    ctx = env.new_ctx()
    install(ctx)
    buckets = {}

    def record(sig, what, rep, size):
        for k in known:
            if sig_matches(k["signature"], sig):
                if not part.excluded[k["id"]]:
                    part.violation(sig, what, rep)
                part.excluded[k["id"]] += 1
                return
        key = h(sig)
        if key not in buckets or size < buckets[key][3]:
            buckets[key] = (sig, what, rep, size)

    names = list(CONTEXTS)

    def body_nowiki(case):
        c, ci = case
        cname = names[ci % len(names)]
        sp = (ci // len(names)) % 6  # spellings 1-3 in half of the cases
        sp = sp if sp < len(SPELLINGS) else 0
        for cn in ("top", cname):
            viols = nowiki_case(ctx, c, cn, sp)
            part.case(h((c, cn, sp)), nontrivial_c(c, cn),
                      classes=["nowiki:" + cn, "tag-spelling:%d" % sp] +
                      ["c:" + k for k in soup.struct_classes(c)],
                      sample={"context": cn, "c": c})
            for sig, what in viols:
                record(sig, what, {"kind": "nowiki", "c": c, "context": cn,
                                   "spelling": sp}, len(c))

    hyp.search(st.tuples(c_strategy(), st.integers(0, 1000)), body_nowiki,
               n_nowiki, seed * 1000 + idx, shrink=False)

    def body_comment(segs):
        status, detail, full = comment_case(ctx, segs)
        if status == "ood":
            part.excluded["comment document outside domain"] += 1
            return
        kinds = {s[0] for s in segs}
        part.case(h(full), len(kinds) >= 2 and
                  len(soup.struct_classes(full)) >= 2,
                  classes=["comment-doc"] +
                  (["comment-doc:with-nowiki"] if "nowiki" in kinds else []) +
                  (["comment-doc:newline-before"]
                   if any(s[0] == "comment" and s[1] for s in segs) else []),
                  sample={"doc": full})
        if status == "viol":
            record(detail[0], detail[1], {"kind": "comment",
                                          "segs": [list(s) for s in segs]},
                   len(full))

    hyp.search(seg_strategy(), body_comment, n_comment,
               seed * 1000 + 500 + idx, shrink=False)
    ctx.close_db_conn()
    for sig, what, rep, _ in buckets.values():
        part.violation(sig, what, rep)
    return part.to_dict()


FIXED_C = ["a", " a ", "\na\n", "* x", "a|b", "{{echo|x}}", "a\n\nb",
           "''b''", "<!-- x -->", "[[a]]", "==h==", "x}}y", "a=b", "<nowiki>",
           "__TOC__", "\n* a\n* b", "{|\n|x\n|}", "http://x.org", "----",
           "k=v|w", "]]", "}}", "{{{1}}}", "<!--", "-->", "\n<!-- c -->x",
           "=!#*:<>[]{}|\"'_", "<nowiki/>", "</ nowiki>", "~~~~", ";a:b"]


def run(run):
    quick = run.tier == "quick"
    procs = par.nprocs(run.tier)
    # fixed corpus x every context (deterministic part)
    env.setup()
    ctx = env.new_ctx()
    install(ctx)
    for c in FIXED_C:
        for cn in CONTEXTS:
            viols = nowiki_case(ctx, c, cn)
            run.case(h((c, cn)), nontrivial_c(c, cn),
                     classes=["nowiki:" + cn, "corpus"],
                     sample={"context": cn, "c": c})
            for sig, what in viols:
                run.violation(sig, what, {"kind": "nowiki", "c": c,
                                          "context": cn})
    ctx.close_db_conn()
    n1 = 700 if quick else 30000
    n2 = 900 if quick else 40000
    for d in par.map_shards(shard, [(i, run.seed, n1, n2, run.known)
                                    for i in range(procs)], procs):
        run.merge(d)
    run.rule = (
        "c = 1-10 tokens of the wikitext token alphabet (G-soup plus whole "
        "comments, calls, strip-marker look-alikes), without '&', without a "
        "closing nowiki tag, without placeholder-range characters; each c is "
        "embedded at top level and in one of 14 contexts (template argument "
        "positional / middle / named / nested, link text, list item, table "
        "cell, #if and #switch arguments, heading, HTML element, italic). "
        "Oracle: expand(<nowiki>c</nowiki>) equals c with exactly the "
        "documented entity table applied and html.unescape gives c back; "
        "parse yields the single text node; embedded, expand / the "
        "template_fn log / the strict parse tree equal those obtained with an "
        "inert word in place of c and substituted back (plus explicit "
        "expected strings for ten contexts). Comments: documents of text / "
        "nowiki / comment segments; expand and parse must equal those of the "
        "document with every comment (and the line break directly before it) "
        "deleted. Non-trivial: c has >= 2 structural token classes, or a "
        "| = } inside an argument context; comment documents with >= 2 "
        "segment kinds and >= 2 structural classes."
    )
    run.assumptions = [
        "comment bodies contain no nowiki tags and no '-->'; documents in "
        "which deleting the comments assembles a new '<!--' are skipped "
        "(counted)",
        "entities ('&') are excluded from c per the statement",
    ]
    run.trusted_base = ["refs/tree.py strict()", "gens/soup.py"]


def replay(run, case):
    env.setup()
    ctx = env.new_ctx()
    install(ctx)
    try:
        if case["kind"] == "nowiki":
            viols = nowiki_case(ctx, case["c"], case["context"],
                                case.get("spelling", 0))
            run.case(h((case["c"], case["context"])), True,
                     sample={"context": case["context"], "c": case["c"]})
            for sig, what in viols:
                run.violation(sig, what, case)
        else:
            segs = [tuple(s) for s in case["segs"]]
            status, detail, full = comment_case(ctx, segs)
            run.case(h(full), True, sample={"doc": full})
            if status == "viol":
                run.violation(detail[0], detail[1], case)
    finally:
        ctx.close_db_conn()
