"""C06 — Lua code from pages is confined to the sandbox.

(a) exhaustive reachability over the live object graph a module receives;
(b) an attack corpus (fixed classics + generated path programs) executed for
    real in children with canary files, a canary environment variable and a
    byte-level comparison of the page table."""

import functools
import os
import shutil
import tempfile
import types

from hypothesis import strategies as st

from fixtures import lua_modules
from vlib import env, hyp, par
from vlib.run import Part, h, sig_matches

PROBE = r"""
local p = {}
function p.main(frame)
  return frame:preprocess("{{verif-stop}}")
end
return p
"""

WELL_KNOWN = ["io", "os", "package", "debug", "python", "ffi", "jit", "bit",
              "coroutine", "_G", "string", "table", "math", "utf8",
              "_sandbox_phase1", "_sandbox_phase2", "mw", "mw_text", "mw_hash",
              "mw_html", "mw_language", "mw_site", "mw_title", "mw_uri",
              "mw_message", "mw_ext", "mw_wikibase", "libraryUtil",
              "ustring:ustring", "strict", "bit32", "lpeg", "lfs", "socket"]

IMMUTABLE = (str, int, float, bool, type(None), bytes)


def forbidden_host_values(lua):
    """name -> Lua value captured from the HOST global table."""
    g = lua.globals()
    out = {}

    def add(name, v):
        if v is not None:
            out[name] = v

    for lib in ("io",):
        t = g[lib]
        add(lib, t)
        if t is not None:
            for k, v in t.items():
                add(f"{lib}.{k}", v)
    if g["os"] is not None:
        for k in ("execute", "exit", "getenv", "remove", "rename", "tmpname",
                  "setlocale"):
            add("os." + k, g["os"][k])
        add("os (host table)", g["os"])
    if g["package"] is not None:
        add("package (host table)", g["package"])
        for k in ("loaded", "loaders", "searchers", "loadlib", "preload",
                  "searchpath"):
            add("package." + k, g["package"][k])
    if g["debug"] is not None:
        for k, v in g["debug"].items():
            if k != "traceback":
                add("debug." + str(k), v)
        add("debug (host table)", g["debug"])
    add("_G (host global table)", g)
    for k in ("load", "loadstring", "dofile", "loadfile", "getfenv",
              "setfenv", "newproxy", "module", "collectgarbage"):
        add(k, g[k])
    py = g["python"]
    if py is not None:
        add("python (bridge)", py)
        for k, v in py.items():
            add("python." + str(k), v)
    return out


class Walker:
    def __init__(self, ctx):
        self.ctx = ctx
        self.lua = ctx.lua
        L = self.lua
        self.seen_tbl = L.eval("{}")
        self.forb_tbl = L.eval("{}")
        self.mark = L.eval(
            "function(seen, o) if seen[o] then return true end "
            "seen[o] = true return false end")
        self.lookup = L.eval("function(t, o) return t[o] end")
        self.setk = L.eval("function(t, o, v) t[o] = v end")
        self.lua_index = L.eval("function(o, k) return o[k] end")
        self.lua_pcall = L.globals()["pcall"]
        self.getmt = L.globals()["getmetatable"]
        self.rawget = L.globals()["rawget"]
        self.ltype = L.globals()["type"]
        self.strmeta = L.eval('getmetatable("")')
        for name, v in forbidden_host_values(L).items():
            try:
                self.setk(self.forb_tbl, v, name)
            except Exception:
                pass
        self.py_seen = {}
        self.reached = 0
        self.reached_far = 0
        self.py_objects = []
        self.violations = []
        self.edges = 0

    def lua_kind(self, v):
        try:
            import lupa.lua51 as lupa

            return lupa.lua_type(v)
        except Exception:
            return None

    def visit_all(self, roots):
        queue = list(roots)  # (value, path, dist)
        while queue:
            v, path, dist = queue.pop(0)
            kind = self.lua_kind(v)
            if kind in ("table", "function", "userdata", "thread"):
                name = self.lookup(self.forb_tbl, v)
                if name is not None:
                    self.violations.append(("host-capability", name, path))
                    continue
                if self.mark(self.seen_tbl, v):
                    continue
                self.reached += 1
                if dist >= 2:
                    self.reached_far += 1
                mt = None
                try:
                    mt = self.getmt(v)
                except Exception:
                    pass
                if mt is not None and self.lua_kind(mt) == "table":
                    queue.append((mt, path + ["<metatable>"], dist + 1))
                if kind == "table":
                    try:
                        items = list(v.items())
                    except Exception:
                        items = []
                    for k, x in items:
                        self.edges += 1
                        queue.append((k, path + ["<key %r>" % (k,)], dist + 1))
                        queue.append((x, path + ["[%r]" % (k,)], dist + 1))
                continue
            if isinstance(v, IMMUTABLE):
                continue
            # a Python object handed to Lua
            self.visit_py(v, path, dist, queue)

    def visit_py(self, o, path, dist, queue):
        if id(o) in self.py_seen:
            return
        self.py_seen[id(o)] = o
        self.reached += 1
        if dist >= 2:
            self.reached_far += 1
        tname = type(o).__module__ + "." + type(o).__qualname__
        self.py_objects.append((tname, "/".join(path[-4:])))
        if isinstance(o, tuple) and all(isinstance(x, IMMUTABLE) for x in o):
            return  # immutable argument value
        allowed_callable = isinstance(
            o, (types.FunctionType, types.BuiltinFunctionType,
                types.MethodType, functools.partial)) or (
            callable(o) and not isinstance(o, type))
        # an exception object is an error *value*; it is judged by what its
        # attributes lead to (AttributeError.obj, OSError.filename, ...),
        # which the loop below follows
        if not allowed_callable and not isinstance(o, BaseException):
            self.violations.append(("python-object", tname, path))
        # the runtime's attribute filter itself, exercised from the Lua side:
        # no underscore attribute of any reachable Python object may be
        # readable
        for dunder in ("__class__", "__globals__", "__dict__", "__self__",
                       "__closure__", "__code__", "__func__", "__init__",
                       "__reduce__", "__module__", "__traceback__",
                       "__builtins__", "_sa_instance_state", "_Wtp__x"):
            try:
                r = self.lua_pcall(self.lua_index, o, dunder)
            except Exception:
                continue
            if isinstance(r, tuple) and r and r[0] and len(r) > 1 and \
                    r[1] is not None:
                self.violations.append(
                    ("attribute-filter-bypass", tname + "." + dunder, path))
                break
        # what a module can get out of it: every attribute the runtime's
        # attribute filter lets through, and items of containers
        for a in dir(o):
            if a.startswith("_"):
                continue
            try:
                x = getattr(o, a)
            except Exception:
                continue
            self.edges += 1
            if isinstance(x, IMMUTABLE):
                continue
            if isinstance(x, (types.BuiltinMethodType, types.MethodType)) and \
                    getattr(x, "__self__", None) is o:
                # bound method of the object itself: calling it is covered by
                # the object being reachable at all
                continue
            queue.append((x, path + ["." + a], dist + 1))
        if isinstance(o, (tuple, list)):
            for i, x in enumerate(o):
                queue.append((x, path + ["[%d]" % i], dist + 1))
        elif isinstance(o, dict):
            for k, x in o.items():
                queue.append((x, path + ["[%r]" % (k,)], dist + 1))


def reachability(ctx, with_parent):
    """Runs the probe and walks the graph from inside the live invocation."""
    found = {}

    def stop(args):
        envt = ctx.lua_env_stack[-1]
        frame = ctx.lua_frame_stack[-1]
        w = Walker(ctx)
        roots = [(envt, ["env"], 0), (frame, ["frame"], 0),
                 (w.strmeta, ['getmetatable("")'], 0)]
        # zero-argument accessors the sandbox documents
        try:
            pf = frame["getParent"](frame)
            if pf is not None:
                roots.append((pf, ["frame:getParent()"], 1))
        except Exception:
            pass
        try:
            cf = envt["mw"]["getCurrentFrame"]()
            roots.append((cf, ["mw.getCurrentFrame()"], 1))
        except Exception:
            pass
        # require(n) evaluated inside the module environment
        names = set(WELL_KNOWN)
        try:
            for k in ctx.lua.globals()["package"]["loaded"].keys():
                names.add(str(k))
            pre = ctx.lua.globals()["package"]["preload"]
            if pre is not None:
                for k in pre.keys():
                    names.add(str(k))
        except Exception:
            pass
        from wikitextprocessor import luaexec

        for d in [luaexec.LUA_DIR, env.FIXTURE_LUA]:
            try:
                for pth in os.listdir(str(d)):
                    if pth.endswith(".lua"):
                        names.add(pth[:-4])
            except Exception:
                pass
        # decorated spellings of the names that must never resolve to a
        # host library: the loader strips, lower-level code may not
        for base in ("io", "os", "package", "python", "_G", "debug",
                     "_sandbox_phase1", "string", "coroutine"):
            for v in (" " + base, base + " ", base + "\n", "\t" + base,
                      " " + base + " ", base.upper(), base.capitalize(),
                      base + ".lua", "./" + base, base + "/", ":" + base,
                      base + ":", "Module:" + base, "module:" + base,
                      base + "\0", "\0" + base, "/" + base, base + "//",
                      "." + base, base + "."):
                names.add(v)
        req = envt["require"]
        pc = envt["pcall"]
        nreq = 0
        for n in sorted(names):
            try:
                r = pc(req, n)
            except Exception:
                continue
            if isinstance(r, tuple) and r and r[0] and len(r) > 1:
                nreq += 1
                roots.append((r[1], ["require(%r)" % n], 1))
        # the sandbox's own lookup helpers, called the way a module can
        for fn in ("_cached_mod", "_new_loader"):
            f = envt[fn]
            if f is None:
                continue
            for n in sorted(names):
                try:
                    r = pc(f, n)
                except Exception:
                    continue
                if isinstance(r, tuple) and r and r[0] and len(r) > 1 and \
                        r[1] is not None:
                    roots.append((r[1], ["%s(%r)" % (fn, n)], 1))
        # what the Python-backed helpers hand back for benign arguments
        ncall = 0
        arg_vectors = [(), ("Probe page",), ("Module:echo",), ("Template:wrap",),
                       ("Probe page", 0), ("en",), ("fi", "en"), ("{}", 0),
                       ("x", "<>"), ("a", True), ("Q42",), ("Q42", "enwiki")]
        for k in list(envt.keys()):
            if not isinstance(k, str):
                continue
            if not (k.startswith("mw_") or k.endswith("_python")
                    or k.endswith("_py") or k in ("_python_top_env",)):
                continue
            if "wikibase" in k or "wikidata" in k:
                continue  # network by design (C05 excludes them as well)
            f = envt[k]
            if w.lua_kind(f) != "function" and not callable(f):
                continue
            for av in arg_vectors:
                try:
                    r = pc(f, *av)
                except Exception:
                    continue
                if isinstance(r, tuple) and r and r[0] and len(r) > 1 and \
                        r[1] is not None:
                    ncall += 1
                    roots.append((r[1], ["%s%r" % (k, av)], 1))
        found["helper_calls"] = ncall
        # error values: a Python exception raised under a helper or a frame
        # method reaches the module as the error value of pcall(); whatever
        # the exception object carries (AttributeError.obj, .args, ...) is
        # then the module's.  Calls that fail are as informative as calls
        # that succeed, so failing results are roots too.
        nerr = 0
        title = "Probe page"
        from wikitextprocessor.parserfns import PARSER_FUNCTIONS

        def call_and_root(label, f, *av):
            nonlocal nerr
            try:
                r = pc(f, *av)
            except Exception:
                return
            if isinstance(r, tuple) and len(r) > 1 and r[1] is not None:
                if not r[0]:
                    nerr += 1
                roots.append((r[1], [label], 1))

        empty_tbl = ctx.lua.eval("{}")   # a Lua table: modules cannot make
        hostile = [(), (None,), (title,), ("Module:probe",), (0,), (True,),
                   (empty_tbl,), ("{{verif-none}}",), (title, title),
                   ("x", None)]          # Python containers themselves
        for m in ("preprocess", "expandTemplate", "callParserFunction",
                  "extensionTag", "getTitle", "getParent", "newChild",
                  "getArgument", "argumentPairs", "newParserValue",
                  "newTemplateParserValue"):
            f = frame[m]
            if f is None:
                continue
            for av in hostile:
                call_and_root("frame:%s%r" % (m, av), f, frame, *av)
        cpf = frame["callParserFunction"]
        for fn in sorted(PARSER_FUNCTIONS):
            if fn in ("#invoke", "#property", "#statements"):
                continue  # network by design / recursion into the probe
            for av in ((), (title,), ("Module:probe",), ("x", "y"),
                       ("Template:wrap", "R")):
                call_and_root("frame:callParserFunction(%r,%r)" % (fn, av),
                              cpf, frame, fn, *av)
        for k in list(envt.keys()):
            if not isinstance(k, str) or "wikibase" in k or "wikidata" in k:
                continue
            f = envt[k]
            if not (k.startswith("mw_") or k.endswith("_python")
                    or k.endswith("_py") or k.startswith("_")):
                continue
            if k in ("_lua_reset_env", "_lua_io_flush", "_G"):
                continue
            if w.lua_kind(f) != "function" and not callable(f):
                continue
            for av in hostile:
                call_and_root("%s%r" % (k, av), f, *av)
        found["error_values"] = nerr
        w.visit_all(roots)
        found["w"] = w
        found["nreq"] = nreq
        found["names"] = len(names)
        return "stopped"

    ctx.template_override_funcs = {"verif-stop": stop}
    ctx.start_page("Probe page")
    if with_parent:
        out = ctx.expand("{{wrap|A1|k=KV}}")
    else:
        out = ctx.expand("{{#invoke:probe|main|A1|k=KV}}")
    return found, out


# ------------------------------------------------------------ attack corpus
CANARY = "CANARY-7f3a9c-SECRET"

ATTACKS = {
    "require-io-write": 'local io = require("io"); local f = io.open("pwned.txt", "w"); f:write("x"); f:close(); return "wrote"',
    "require-padded-io-write": 'local io = require(" io"); local f = io.open("pwned4.txt", "w"); f:write("x"); f:close(); return "wrote"',
    "require-newline-os-getenv": 'return tostring(require("os\\n").getenv("VERIF_CANARY"))',
    "cached-mod-upper-io": 'local m = _cached_mod("IO") or _cached_mod("Io") or _cached_mod("io "); return tostring(m and m.open)',
    "require-io-read": 'local io = require("io"); local f = io.open("canary.txt"); return f:read("*a")',
    "cached-mod-os-execute": 'return tostring(_cached_mod("os").execute("touch pwned2.txt"))',
    "require-os-getenv": 'return tostring(require("os").getenv("VERIF_CANARY"))',
    "os-getenv-global": 'return tostring(os.getenv and os.getenv("VERIF_CANARY"))',
    "require-G": 'local g = require("_G"); return tostring(g.io and g.io.open)',
    "require-package-loadlib": 'return tostring(require("package").loadlib)',
    "require-python": 'local py = require("python"); return tostring(py.builtins and py.builtins.open)',
    "python-global": 'return tostring(python and python.eval)',
    "partial-args-ctx": 'local c = mw_python_get_page_content.args[0]; c.add_page("Evil", 0, "x"); return tostring(c)',
    "partial-args-dbpath": 'local c = mw_python_get_page_content.args[0]; c.db_path.parent.joinpath("pwned3.txt").write_text("x"); return "ok"',
    "partial-func-globals": 'return tostring(mw_python_get_page_content.func.__globals__)',
    "top-env-args": 'return tostring(_python_top_env.args[0])',
    "string-meta-index": 'return tostring(getmetatable("").__index.dump)',
    "load-bytecode": 'return tostring(load) .. tostring(loadstring)',
    "package-loaders": 'local l = package.loaders[2]("io"); return tostring(l)',
    "require-traversal-relative": 'local ok, r = pcall(require, "@@RELSECRET@@"); return tostring(ok) .. ":" .. tostring(r)',
    "require-absolute-lua-file": 'local ok, r = pcall(require, "@@ABSSECRET@@"); return tostring(ok) .. ":" .. tostring(r)',
    "new-loader-absolute": 'local f = _new_loader("@@ABSSECRET@@"); return tostring(f and f())',
    "loaddata-absolute": 'local ok, r = pcall(mw.loadData, "@@ABSSECRET@@"); return tostring(ok) .. ":" .. tostring(r)',
    "loader-path-variants": """
  local abs = "@@ABSSECRET@@"
  local colon = abs:gsub("/", ":")
  local names = { abs, "/" .. abs, ":" .. abs, colon, ":" .. colon, "::" .. colon,
                  " " .. abs, "\\n" .. abs, "\\t" .. colon, "." .. abs, "./" .. abs,
                  ".:" .. colon, colon .. ".lua", abs .. ".lua", ":/" .. abs,
                  "Module:" .. abs, "Module:" .. colon, abs:gsub("/", "//"),
                  abs:gsub("/", "/./"), "@@RELSECRET@@", ("@@RELSECRET@@"):gsub("/", ":") }
  local loaders = {
    function(n) return require(n) end,
    function(n) local f = _new_loader(n); return f and f() end,
    function(n) return mw.loadData(n) end,
    function(n) return mw.loadJsonData(n) end,
    function(n) local f = package.loaders[2](n); return f and f() end,
  }
  for _, n in ipairs(names) do
    for _, l in ipairs(loaders) do
      local ok, r = pcall(l, n)
      if ok and r ~= nil then return "LOADED:" .. tostring(r) end
    end
  end
  return "nothing loaded"
""",
    "require-dotdot": 'return tostring(pcall(require, "../../../../etc/passwd"))',
    "require-abs": 'return tostring(pcall(require, "/etc/passwd"))',
    "require-colon-path": 'return tostring(pcall(require, "..:..:..:core"))',
    "new-loader-py": 'return tostring(pcall(_new_loader, "../core.py"))',
    "loaddata-host": 'local ok, d = pcall(_new_loadData, "io"); return tostring(ok) .. tostring(d and d.open)',
    "frame-args-internals": 'return tostring(rawget(frame.args, "_orig")) .. tostring(frame.args._frame)',
    "frame-callable-attrs": 'return tostring(frame.preprocess.__globals__) .. tostring(frame.callParserFunction.__closure__)',
    "dunder-globals": 'local g = frame.preprocess.__globals__; return "DUNDER:" .. tostring(g ~= nil)',
    "dunder-class": 'local c = frame.getTitle.__class__; return "DUNDER:" .. tostring(c ~= nil)',
    "dunder-closure": 'local c = frame.expandTemplate.__closure__; return "DUNDER:" .. tostring(c ~= nil)',
    "dunder-tuple-class": 'local t = rawget(frame.args, "_orig")[1]; local c = t.__class__; return "DUNDER:" .. tostring(c ~= nil)',
    "debug-getupvalue": 'return tostring(debug.getupvalue) .. tostring(debug.getregistry) .. tostring(debug.sethook)',
    "setfenv-escape": 'return tostring(setfenv) .. tostring(getfenv)',
    "reset-env": 'local e = _lua_reset_env(); return tostring(e.io) .. tostring(e.os and e.os.execute)',
    "set-loader": 'return tostring(pcall(_lua_set_python_loader, function(n) return "return io" end))',
    "save-mod-then-require": '_save_mod("zz", 1); return tostring(require("zz"))',
    "current-frame-attrs": 'return tostring(current_frame_python.args) .. tostring(current_frame_python.func)',
    "tostring-tricks": 'return tostring(mw_decode_python.__module__) .. tostring(mw_decode_python.__code__)',
    "pyobj-index": 'local t = frame.args; local v = rawget(rawget(t, "_orig") or {}, 1); return tostring(v and v.__class__)',
    "mw-getcontent-other": 'return tostring(mw_python_get_page_content("Module:attack"))',
    "os-tmpname-remove": 'return tostring(os.tmpname) .. tostring(os.remove) .. tostring(os.rename) .. tostring(os.exit)',
    "io-global": 'return tostring(io)',
    "dofile": 'return tostring(dofile) .. tostring(loadfile)',
    "collectgarbage": 'return tostring(collectgarbage) .. tostring(newproxy) .. tostring(module)',
}

# A dump controls page TITLES too: a module page named like a file of the
# sandbox implementation or of the built-in libraries.  If the loader hands it
# out in place of the file, it runs inside the privileged set-up.  The payload
# watches every table that passes through the global helpers while it is
# loaded / used, looks for Python callables in it and uses what it finds.
SHADOW_PAYLOAD = r"""
local stash = { seen = 0 }
local raw_next, raw_type, raw_pcall, raw_tostring = _orig_next or next, type, pcall, tostring
local busy = false
local function try(t)
  if busy then return end
  busy = true
  raw_pcall(function()
    for k, v in raw_next, t do
      local ok, a = raw_pcall(function() return v.args end)
      if ok and a ~= nil then
        local c = a[0]
        stash.ctx = raw_tostring(c)
        raw_pcall(function() c.add_page("Evil", 0, "x") end)
        raw_pcall(function()
          c.db_path.parent.joinpath("pwned-shadow.txt").write_text("x")
        end)
      end
    end
  end)
  busy = false
end
local function wrap(orig)
  if raw_type(orig) ~= "function" then return orig end
  return function(...)
    local a = ...
    if raw_type(a) == "table" then stash.seen = stash.seen + 1; try(a) end
    return orig(...)
  end
end
-- plain global assignments: works whatever _G is bound to in this chunk
pairs = wrap(pairs); ipairs = wrap(ipairs); next = wrap(next)
getmetatable = wrap(getmetatable); type = wrap(type); select = wrap(select)
rawget = wrap(rawget); rawset = wrap(rawset); tostring = wrap(tostring)
unpack = wrap(unpack); setmetatable = wrap(setmetatable)
__shadow = stash
-- enough of a library for the set-up to go on (mw.ustring.upper / lower);
-- anything else is a function, so that deeper use fails at once
local dummy = function(...)
  for i = 1, select("#", ...) do
    local a = select(i, ...)
    if raw_type(a) == "table" then try(a) end
  end
  return nil
end
local stub = setmetatable({ shadow = stash,
    ustring = { upper = string.upper, lower = string.lower } },
  { __index = function(t, k) return dummy end })
return stub
"""

SHADOW_MAIN = ('local s = __shadow or (type(mw) == "table" and mw.shadow) or {}; '
               'return "SHADOW:" .. tostring(s.ctx)')


def builtin_module_names():
    """Names under which the loader finds a file of the package (or of the
    stand-in library directory): sandbox phases, mw*, Scribunto lualib."""
    from wikitextprocessor import luaexec as lx

    names = set()
    for prefix, _exc in lx.BUILTIN_LUA_SEARCH_PATHS:
        base = (lx.LUA_DIR / prefix)
        try:
            files = [f for f in base.rglob("*.lua")]
        except OSError:
            continue
        for f in files:
            rel = f.relative_to(base)
            if len(rel.parts) > 2 or "mediawiki-extensions" in str(rel):
                continue
            names.add(":".join(rel.with_suffix("").parts))
    return sorted(names)


def shadow_attacks():
    out = []
    for n in builtin_module_names():
        titles = {"Module:" + n, "Module:" + n.replace("_", " "),
                  "Module:" + n.replace(":", "/")}
        for t in sorted(titles):
            out.append(("shadow:" + t, SHADOW_MAIN, [[t, SHADOW_PAYLOAD]]))
    return out


# Two-step histories: a first invocation tampers with what the NEXT set-up of
# the sandbox will use (the global helpers the privileged chunk calls, the
# timeout setters, the stack of module environments the host keeps), later
# outermost invocations on the same and on another page trigger that set-up.
TAMPER_BODY = r"""
if frame.args[1] == "check" then return "TAMPER:" .. tostring(loot_ctx) end
local raw_next, raw_type, raw_pcall, raw_tostring = _orig_next or next, type, pcall, tostring
local busy = false
local function try(t)
  if busy then return end
  busy = true
  raw_pcall(function()
    for k, v in raw_next, t do
      local ok, a = raw_pcall(function() return v.args end)
      if ok and a ~= nil then
        local c = a[0]
        loot_ctx = raw_tostring(c)
        raw_pcall(function() c.add_page("Evil", 0, "x") end)
        raw_pcall(function()
          c.db_path.parent.joinpath("pwned-tamper.txt").write_text("x")
        end)
      end
    end
  end)
  busy = false
end
local function wrap(orig)
  if raw_type(orig) ~= "function" then return orig end
  return function(...)
    local a = ...
    if raw_type(a) == "table" then try(a) end
    return orig(...)
  end
end
@@PLANT@@
@@DUMMIES@@
for i = 1, @@K@@ do @@PUSH@@ end
return "planted"
"""

TAMPER_HISTORY = ["{{#invoke:attack|main|check}}", "{{#invoke:echo|f|x}}",
                  "{{wrap|check}}", "@newpage", "{{#invoke:attack|main|check}}",
                  "{{#invoke:echo|f|y}}"]


PLANT_OWN = """
pairs = wrap(pairs); ipairs = wrap(ipairs); next = wrap(next)
getmetatable = wrap(getmetatable); type = wrap(type); select = wrap(select)
rawget = wrap(rawget); rawset = wrap(rawset); tostring = wrap(tostring)
unpack = wrap(unpack); setmetatable = wrap(setmetatable)
require = wrap(require)
"""
# the same wrappers written into the table _lua_reset_env() hands out (the
# environment every module environment is cloned from; 'next' and 'mw' in it
# survive the reset before the next top-level invocation)
PLANT_SHARED = """
local saved = { pairs = pairs, ipairs = ipairs, next = next,
  getmetatable = getmetatable, type = type, select = select, rawget = rawget,
  rawset = rawset, tostring = tostring, unpack = unpack,
  setmetatable = setmetatable, require = require }
local okr, shared = raw_pcall(_lua_reset_env)
if okr and raw_type(shared) == "table" then
  for name, fn in raw_next, saved do shared[name] = wrap(fn) end
  local realmw = mw
  if raw_type(realmw) == "table" then
    shared.mw = setmetatable({}, { __index = function(t, k)
      try(realmw); return realmw[k] end })
  end
end
"""

# re-bind the cached chunks of the sandbox implementation / built-in libraries
# to a module-controlled environment through the loader's optional second
# argument; the next set-up must not run in it
PLANT_REBIND = """
local T = setmetatable({}, { __index = _G })
T.pairs = wrap(pairs); T.ipairs = wrap(ipairs); T.next = wrap(next)
T.getmetatable = wrap(getmetatable); T.type = wrap(type)
T.select = wrap(select); T.rawget = wrap(rawget); T.rawset = wrap(rawset)
T.tostring = wrap(tostring); T.unpack = wrap(unpack)
T.setmetatable = wrap(setmetatable); T.require = wrap(require)
for _, name in raw_next, { "_sandbox_phase2", "_sandbox_phase1", "mw",
                           "mw_text", "mw_title", "mw_language", "mw_html",
                           "libraryUtil", "ustring:ustring" } do
  raw_pcall(function() return package.loaders[2](name, T) end)
  raw_pcall(function() return _new_loader(name, T) end)
end
"""


def tamper_attacks():
    out = []
    pushes = {"G": "_python_append_env(_G)",
              "empty": "_python_append_env({})",
              "frameenv": "_python_append_env(setmetatable({}, {__index = _G}))"}
    for k in (0, 1, 2, 3):
        for dummies in (False, True):
            for pn, push in pushes.items():
                if k == 0 and pn != "G":
                    continue
                for plant_name, plant in (("own", PLANT_OWN),
                                          ("shared", PLANT_SHARED),
                                          ("rebind", PLANT_REBIND)):
                    body = TAMPER_BODY.replace("@@K@@", str(k)).replace(
                        "@@PUSH@@", push).replace("@@PLANT@@", plant).replace(
                        "@@DUMMIES@@",
                        "_lua_set_timeout = function() end; "
                        "_lua_clear_timeout_hook = function() end"
                        if dummies else "")
                    out.append((f"tamper:plant={plant_name},push={pn}x{k},"
                                f"dummies={int(dummies)}", body))
    return out


# generated path programs: small expressions over the edge alphabet
ROOTS = ["_G", "frame", "mw", "string", "table", "math", "os", "package",
         "debug", 'getmetatable("")', "frame:getParent()",
         "mw_python_get_page_content", "mw_python_get_page_info",
         "_python_top_env", "_python_append_env", "current_frame_python",
         "mw_jsondecode_python", "mw_current_title_python", "_cached_mod",
         "_new_loader", "_save_mod", "_new_loadData", "_lua_reset_env",
         "require", "frame.args", "frame.preprocess", "mw.text", "mw.title",
         "mw_decode_python", "NAMESPACE_DATA"]
STEPS = [".args", ".func", ".keywords", "[0]", "[1]", ".db_conn", ".db_path",
         ".lua", ".__index", ".loaded", ".loaders", ".io", ".os", ".open",
         ".execute", ".getenv", ".parent", ".cursor", ".add_page",
         ".lua_env_stack", ".globals", ".eval", ".builtins", ".__globals__",
         ".__self__", ".__class__", "()", '("io")', '("os")', '("python")',
         '("_G")', '("package")', '("mw")', '("debug")', '("string")',
         ".execute", ".title", ".data_folder", ".template_override_funcs",
         ".cookies", ".expand", ".get_page", ".NAMESPACE_DATA", ".popen",
         ".stdout", ".write", ".read", ".lines", ".traceback", ".sethook",
         ".getupvalue", ".getregistry", ".preload", ".path", ".cpath",
         ".loadlib", ".seeall", ".mw", ".string", ".rep", ".dump"]


def path_program(root, steps):
    lines = ["local v = " + root, "local n = 0"]
    for s_ in steps:
        lines.append(
            "do local ok, r = pcall(function() return v" + s_ + " end)\n"
            " if not ok or r == nil then return 'STOP:' .. n .. ':' .. "
            "tostring(v) end\n v = r; n = n + 1 end")
    lines.append("return 'END:' .. n .. ':' .. type(v) .. ':' .. tostring(v)")
    return "\n".join(lines)


def snapshot_db(ctx):
    rows = list(ctx.db_conn.execute(
        "SELECT title, namespace_id, redirect_to, need_pre_expand, body, model "
        "FROM pages ORDER BY title, namespace_id"))
    return rows


def ctx_snapshot(ctx):
    return {k: repr(getattr(ctx, k, None))[:200] for k in (
        "db_path", "lang_code", "project", "title", "template_override_funcs",
        "parser_function_aliases", "quiet_output")}


def attack_child(body, extra_pages=(), history=()):
    """Runs one attack program for real in a scratch directory.  extra_pages:
    further (title, Lua source) module pages of the hostile dump."""
    env.setup()
    d = tempfile.mkdtemp(prefix="verif-c06-")
    old = os.getcwd()
    try:
        os.chdir(d)
        with open("canary.txt", "w") as f:
            f.write(CANARY)
        # a Lua-readable secret outside the package's lua directory
        with open("secret.lua", "w") as f:
            f.write('return "' + CANARY + '"\n')
        from wikitextprocessor import luaexec as _lx

        body = body.replace("@@ABSSECRET@@", os.path.join(d, "secret"))
        body = body.replace("@@RELSECRET@@", os.path.relpath(
            os.path.join(d, "secret"), str(_lx.LUA_DIR)))
        os.environ["VERIF_CANARY"] = CANARY
        ctx = env.new_ctx(db_path=os.path.join(d, "db.sqlite"))
        lua_modules.install(ctx)
        ctx.add_page("Module:attack", 828,
                     "local p = {}\nfunction p.main(frame)\n" + body
                     + "\nend\nreturn p\n", model="Scribunto")
        ctx.add_page("Template:wrap", 10, "{{#invoke:attack|main|{{{1|}}}}}")
        for title, src in extra_pages:
            ctx.add_page(title, 828, src.replace("@@DIR@@", d),
                         model="Scribunto")
        ctx.db_conn.commit()
        # first use of Lua adds the documented empty bootstrap page
        ctx.start_page("Warm")
        if extra_pages:
            # the hostile page may act during the very first set-up: no warm-
            # up invocation, only the documented bootstrap page
            from wikitextprocessor import luaexec as _lx2

            if hasattr(_lx2, "add_empty_sandbox_lua_module"):
                _lx2.add_empty_sandbox_lua_module(ctx)
        else:
            ctx.expand("{{#invoke:echo|f|w}}")
        before_db = snapshot_db(ctx)
        before_ctx = ctx_snapshot(ctx)
        before_files = sorted(os.listdir(d))
        ctx.start_page("Attack page")
        try:
            out = ctx.expand("{{wrap|arg}}", timeout=5)
        except BaseException as e:
            out = f"EXC {type(e).__name__}: {e}"[:300]
        # further outermost invocations on the same page / on a new page
        for step in history:
            if step == "@newpage":
                ctx.start_page("Second attack page")
                continue
            try:
                out += "|" + ctx.expand(step, timeout=5)
            except BaseException as e:
                out += f"|EXC {type(e).__name__}: {e}"[:200]
        obs = {"out": out[:400]}
        obs["canary_in_output"] = CANARY in out
        obs["db_changed"] = snapshot_db(ctx) != before_db
        ctx.start_page("Attack page")
        obs["ctx_changed"] = ctx_snapshot(ctx) != dict(
            before_ctx, title=repr("Attack page"))
        files = sorted(x for x in os.listdir(d)
                       if not x.startswith("db.sqlite"))
        obs["new_files"] = [x for x in files if x not in before_files]
        with open("canary.txt") as f:
            obs["canary_intact"] = f.read() == CANARY
        ok_run = not out.startswith('<strong class="error">') and \
            not out.startswith("EXC")
        obs["returned_value"] = ok_run
        return obs
    finally:
        os.chdir(old)
        shutil.rmtree(d, ignore_errors=True)


HOST_MARKS = ("function: builtin", "<built-in", "<function", "<bound method",
              "<wikitextprocessor", "<sqlite3", "PosixPath", "<module",
              "<class ", "<lupa", "deque(", "functools.partial")


def judge_attack(name, body, status, obs):
    base = {"kind": "attack", "attack": name}
    if status == "timeout":
        return []  # C07's business
    if status != "ok":
        return [(dict(base, effect="child-failed"), f"{name}: {status} {obs!r}"[:300])]
    out = []
    if obs["canary_in_output"]:
        out.append((dict(base, effect="read-secret"),
                    f"{name}: the module returned the canary secret "
                    f"({obs['out'][:80]!r})"))
    if obs["new_files"] or not obs["canary_intact"]:
        out.append((dict(base, effect="file-write"),
                    f"{name}: files created/changed: {obs['new_files']!r}"))
    if obs["db_changed"]:
        out.append((dict(base, effect="database-modified"),
                    f"{name}: the pages table changed"))
    if obs["ctx_changed"]:
        out.append((dict(base, effect="context-modified"),
                    f"{name}: the processing context changed"))
    o = obs["out"]
    moved = True
    if name.startswith("path:"):
        # 'STOP:<n>:...' / 'END:<n>:...': n = steps actually taken; printing
        # the root itself (an allowed callable helper) is not an escape
        try:
            moved = int(o.split(":")[1]) >= 1
        except (IndexError, ValueError):
            moved = False
    if obs["returned_value"] and moved and any(m in o for m in HOST_MARKS):
        out.append((dict(base, effect="host-object-obtained"),
                    f"{name}: the module obtained {o[:160]!r}"))
    return out


def is_capability_text(o):
    """For classic attacks that only return tostring() of what they got."""
    return "function: " in o or "table: " in o or "userdata" in o


PROBE_RETURNS = {
    # attack name -> substring that shows a host capability was obtained
    "require-G": "function",
    "dunder-globals": "DUNDER:true",
    "dunder-class": "DUNDER:true",
    "dunder-closure": "DUNDER:true",
    "dunder-tuple-class": "DUNDER:true",
    "cached-mod-upper-io": "function",
    "require-package-loadlib": "function",
    "require-python": "function",
    "python-global": "function",
    "load-bytecode": "function",
    "debug-getupvalue": "function",
    "setfenv-escape": "function",
    "os-tmpname-remove": "function",
    "io-global": "table",
    "dofile": "function",
    "collectgarbage": "function",
    "package-loaders": "function",
    "reset-env": "function",
    "loaddata-host": "function",
}


def run_attack(args):
    name, body = args[0], args[1]
    extra = args[2] if len(args) > 2 else ()
    history = TAMPER_HISTORY if name.startswith("tamper:") else ()
    status, obs, el = par.fork_child(attack_child, (body, extra, history),
                                     timeout=60)
    viols = judge_attack(name, body, status, obs)
    if status == "ok" and name in PROBE_RETURNS and obs["returned_value"]:
        if PROBE_RETURNS[name] in obs["out"] and "builtin" not in obs["out"]:
            # e.g. tostring(io.open) = 'function: 0x...'
            if not any(v[0].get("effect") == "host-object-obtained"
                       for v in viols):
                viols.append(({"kind": "attack", "attack": name,
                               "effect": "host-capability-obtained"},
                              f"{name}: returned {obs['out'][:120]!r}"))
    nontriv = status == "ok" and obs.get("returned_value")
    return name, body, viols, nontriv, (obs if status == "ok" else {"status": status})


def run(run):
    env.setup()
    quick = run.tier == "quick"
    procs = par.nprocs(run.tier)

    # ---- (a) reachability, in a child (the walk touches host internals)
    def reach_child(with_parent):
        env.setup()
        ctx = env.new_ctx()
        lua_modules.install(ctx)
        ctx.add_page("Module:probe", 828, PROBE, model="Scribunto")
        ctx.add_page("Template:wrap", 10, "{{#invoke:probe|main|{{{1|}}}|z=1}}")
        found, out = reachability(ctx, with_parent)
        w = found.get("w")
        if w is None:
            return {"error": "probe did not reach the stop template: " + out[:200]}
        return {"reached": w.reached, "far": w.reached_far, "edges": w.edges,
                "py": w.py_objects[:60], "npy": len(w.py_objects),
                "violations": [(k, n, p[-6:]) for k, n, p in w.violations],
                "nreq": found["nreq"], "names": found["names"],
                "helper_calls": found.get("helper_calls", 0),
                "error_values": found.get("error_values", 0)}

    for with_parent in (True, False):
        status, r, el = par.fork_child(reach_child, (with_parent,), timeout=120)
        if status != "ok" or "error" in (r or {}):
            raise RuntimeError(f"reachability probe failed: {status} {r!r}")
        run.section("reachability-" + ("with-parent" if with_parent
                                        else "page-level"),
                    reached_objects=r["reached"], at_distance_ge_2=r["far"],
                    edges=r["edges"], python_objects=r["npy"],
                    require_names_tried=r["names"],
                    require_names_loaded=r["nreq"],
                    helper_calls_with_results=r["helper_calls"],
                    error_values_followed=r["error_values"],
                    python_object_samples=r["py"][:12])
        run.evaluations += r["reached"]
        for i in range(min(r["far"], 5000)):
            run.nontrivial.add(h(("reach", with_parent, i)))
        run.classes["reach:objects"] += r["reached"]
        run.classes["reach:python-objects"] += r["npy"]
        seen = set()
        for kind, name, path in r["violations"]:
            key = (kind, name)
            if key in seen:
                continue
            seen.add(key)
            via = "partial" if any(x in (".args", ".func", ".keywords")
                                   for x in path) else (
                "require" if any(str(x).startswith(("require(", "_cached_mod(",
                                                    "_new_loader("))
                                 for x in path) else "graph")
            run.violation({"kind": "reachable", "what": kind, "name": name,
                           "via": via},
                          f"a module can reach {name} ({kind}) through "
                          f"{' '.join(map(str, path))}",
                          {"kind": "reach", "with_parent": with_parent})

    # ---- (b) attacks
    progs = list(ATTACKS.items())
    import random

    rnd = random.Random(run.seed)
    n_gen = 60 if quick else 3000
    for i in range(n_gen):
        root = rnd.choice(ROOTS)
        steps = [rnd.choice(STEPS) for _ in range(rnd.randint(1, 5))]
        progs.append(("path:%s%s" % (root, "".join(steps)),
                      path_program(root, steps)))
    extras = {}
    for n, b, extra in shadow_attacks():
        progs.append((n, b))
        extras[n] = extra
    run.extra["shadowed_builtin_titles"] = len(extras)
    tampers = tamper_attacks()
    progs += tampers
    run.extra["tamper_histories"] = len(tampers)
    res = par.map_shards(run_attack, [((n, b, extras.get(n, ())),)
                                      for n, b in progs], procs)
    for name, body, viols, nontriv, obs in res:
        gen = name.startswith("path:")
        steps_n = name.count(".") + name.count("(") + name.count("[")
        run.case(h(name), bool(nontriv) and (not gen or steps_n >= 3),
                 classes=["attack:generated" if gen else "attack:corpus"]
                 + (["attack:returned-a-value"] if nontriv else []),
                 sample={"attack": name, "out": (obs or {}).get("out")})
        shadow = name.startswith("shadow:")
        if shadow:
            run.classes["attack:shadowed-builtin"] += 1
        if name.startswith("tamper:"):
            run.classes["attack:tamper-history"] += 1
        for sig, what in viols:
            if gen:
                sig = dict(sig, attack="generated-path")
            if shadow:
                sig = dict(sig, attack="shadowed-builtin",
                           module=name.split(":", 2)[2])
            run.violation(sig, what, {"kind": "attack", "name": name,
                                      "body": body,
                                      "extra": extras.get(name, [])})
    run.exhaustive = True
    run.rule = (
        "(a) breadth-first walk, from inside a live invocation (page-level "
        "and through a wrapper template), over everything the module "
        "environment and the frame give access to: raw table fields and "
        "keys, metatables (incl. the string metatable), frame:getParent(), "
        "mw.getCurrentFrame(), the results of every mw_* / *_python helper "
        "called with 12 benign argument vectors, the results AND error values "
        "of every frame method and helper called with 10 hostile argument "
        "vectors and of frame:callParserFunction for every parser function "
        "x 5 argument vectors, require(n) / _cached_mod(n) "
        "/ _new_loader(n) "
        "for every name in the host package.loaded / preload, every built-in "
        ".lua file stem, a list of well-known names and 20 decorated "
        "spellings (blanks, case, path and prefix decorations) of each host "
        "library name, and for every Python "
        "object every attribute that passes the runtime's attribute filter "
        "plus container items; identity de-duplicated. Oracle: no reached "
        "value is (rawequal) a host io/os-process/package/debug function or "
        "table, the host _G, load/loadstring/dofile/loadfile/getfenv/setfenv/"
        "newproxy/module/collectgarbage or the python bridge, and every "
        "reached Python object is a callable helper or an immutable value. "
        f"(b) {len(ATTACKS)} classic escapes and generated path programs "
        "(root x 1-5 steps over field / index / call edges) executed for real "
        "in a scratch directory with canary file and environment variable, "
        "plus, for every built-in Lua file of the package, a hostile module "
        "page stored under that file's module name (three title spellings) "
        "whose payload watches the tables passing through the global helpers "
        "while the sandbox is set up and uses any Python callable it finds; "
        "and two-step histories in which a first invocation wraps the global "
        "helpers (in its own environment, or in the shared environment that "
        "_lua_reset_env() hands out, including the names kept across resets, or by "
        "re-binding the cached set-up / library chunks to its own table through "
        "the loader's environment argument), optionally disables the timeout setters and pushes 0-3 "
        "extra entries on the host's environment stack, followed by five "
        "further outermost invocations on the same and on a new page: "
        "no new or changed file, pages table byte-identical, context "
        "attributes unchanged, canary not returned, no host object obtained. "
        "Non-trivial: reached objects at distance >= 2; programs with >= 3 "
        "steps that returned a value."
    )
    run.assumptions = [
        "upvalues of Lua closures are not edges (the walk itself shows that "
        "no debug.getupvalue is reachable)",
        "Python helpers are called by the walk with a fixed list of benign "
        "argument vectors only (wikibase helpers, which use the network by "
        "design, are not called); other arguments are the attack programs' "
        "business",
        "a Python exception object that reaches Lua as an error value is not "
        "itself counted as a leaked object; every attribute of it that "
        "passes the runtime's filter is followed and judged",
        "memory safety of Lua / lupa is out of reach of this harness",
    ]
    run.trusted_base = ["fixtures/lua/* stand-ins (treated like built-in "
                        "library files)", "lupa table iteration"]


def replay(run, case):
    env.setup()
    if case.get("kind") == "attack":
        name, body, viols, nontriv, obs = run_attack((
            case["name"], case["body"], case.get("extra", [])))
        run.case(h(name), True, sample={"attack": name})
        for sig, what in viols:
            run.violation(sig, what, case)
        return
    # reachability findings are re-established by the full walk
    run.case(h("reach"), True, sample={"replay": "full walk"})
    ctx = env.new_ctx()
    lua_modules.install(ctx)
    ctx.add_page("Module:probe", 828, PROBE, model="Scribunto")
    ctx.add_page("Template:wrap", 10, "{{#invoke:probe|main|{{{1|}}}|z=1}}")
    found, out = reachability(ctx, case.get("with_parent", True))
    seen = set()
    for kind, name, path in found["w"].violations:
        if (kind, name) in seen:
            continue
        seen.add((kind, name))
        via = "partial" if any(x in (".args", ".func", ".keywords")
                               for x in path) else (
            "require" if any(str(x).startswith(("require(", "_cached_mod(",
                                                "_new_loader("))
                             for x in path) else "graph")
        run.violation({"kind": "reachable", "what": kind, "name": name,
                       "via": via},
                      f"a module can reach {name} through "
                      f"{' '.join(map(str, path[-6:]))}", case)
