"""C14 — all three views of a template call's arguments agree."""

import itertools
import re

from hypothesis import strategies as st

from fixtures import lua_modules
from vlib import env, hyp, par
from vlib.bucket import exc_bucket, exc_text
from vlib.run import Part, h, sig_matches

# 13 argument shapes; {i} makes names / values distinct within a list
SHAPES = {
    "plain": "v{i}",
    "lead-blank": " v{i}",
    "trail-blank": "v{i} ",
    "lead-newline": "\nv{i}",
    "inner-newline": "v{i}\nw",
    "named": "k{i}=v{i}",
    "named-blanks": " k{i} = v{i} ",
    "num-2": "2=v{i}",
    "num-02": "02=v{i}",
    "num-0": "0=v{i}",
    "num-neg": "-1=v{i}",
    "two-word-key": "a{i} b = v{i}",
    "non-ascii": "é{i}=ü {i}",
    "num-3-nl": "3=\nv{i}\n",
    "num-5": "5=v{i}",
    "named-inner-nl": "n{i}=v{i}\nw{i}",
    "num-inner-nl": "4=v{i}\n\nw",
    "named-tabs": "\tt{i}\t=\tv{i}\t",
    # blanks / line breaks around a positive-integer NAME
    "num-blank-name": " 6 =v{i}",
    "num-nl-name": "\n7=v{i}",
    "num-spaced": "8 = v{i}",
    "num-tab-name": "\t9\t=v{i}",
    # characters str.isdigit() accepts but int() does not: plain string names
    "superscript-name": "²{i}=v{i}",
    "circled-name": "①=v{i}",
}
SHAPE_NAMES = list(SHAPES)
WS = " \t\n\r"


def render_args(shapes):
    return [SHAPES[s].format(i=i) for i, s in enumerate(shapes)]


def expected(args):
    """The statement's rules: positional numbered from 1 verbatim; named keys
    and values trimmed; positive integer names are integer keys.  Returns None
    when two arguments resolve to the same key (outside the precondition)."""
    out = {}
    num = 1
    for a in args:
        if "=" in a:
            k, v = a.split("=", 1)
            k = k.strip(WS)
            v = v.strip(WS)
            k = " ".join(k.split())
            if k.isdigit() and k.isascii() and int(k) > 0:
                k = int(k)
        else:
            k, v = num, a
            num += 1
        if k in out or v.strip(WS) == "":
            return None
        out[k] = v
    return out


DUMP_ITEM = re.compile(r"([ns])(\d+):")


def parse_dump(s):
    """Inverse of the echo module's dump_args (lengths are byte counts)."""
    assert s.startswith("{") and s.endswith("}"), s
    body = s[1:-1].encode("utf-8")
    out = {}
    pos = 0

    def field(pos):
        m = re.match(rb"(\d+):", body[pos:])
        n = int(m.group(1))
        start = pos + m.end()
        return body[start:start + n].decode("utf-8"), start + n

    while pos < len(body):
        tag = chr(body[pos])
        key, pos = field(pos + 1)
        assert body[pos:pos + 1] == b"=", body
        val, pos = field(pos + 1)
        if pos < len(body):
            assert body[pos:pos + 1] == b",", body
            pos += 1
        out[int(key) if tag == "n" else key] = val
    return out


def lua_len_fix(d):
    return d


def views(ctx, args):
    """Returns {view: map or ('exc', text)}."""
    from wikitextprocessor.parser import TemplateNode

    out = {}
    call = "{{t|" + "|".join(args) + "}}"
    ctx.start_page("Test")
    try:
        root = ctx.parse(call)
        node = root.children[0]
        assert isinstance(node, TemplateNode), repr(root.children)[:80]
        tp = node.template_parameters
        v1 = {}
        for k, v in tp.items():
            if isinstance(v, list):
                v = "".join(x if isinstance(x, str) else "<node>" for x in v)
            v1[k] = v
        out["parse"] = v1
    except Exception as e:
        out["parse"] = ("exc", exc_text(e))
    seen = []

    def tfn(name, ht):
        seen.append(dict(ht))
        return ""

    try:
        ctx.start_page("Test")
        ctx.expand(call, template_fn=tfn)
        out["template_fn"] = seen[0] if len(seen) == 1 else ("exc",
                                                               f"{len(seen)} calls")
    except Exception as e:
        out["template_fn"] = ("exc", exc_text(e))
    try:
        ctx.start_page("Test")
        r = ctx.expand("{{#invoke:echo|dump|" + "|".join(args) + "}}")
        out["lua"] = parse_dump(r)
    except Exception as e:
        out["lua"] = ("exc", exc_text(e))
    return out


def typed(m):
    return sorted((type(k).__name__, str(k), v) for k, v in m.items())


def shape_class(shapes):
    kinds = set()
    for s in shapes:
        if s.startswith("num-"):
            kinds.add("numeric")
        elif s in ("named", "named-blanks", "two-word-key", "non-ascii",
                   "named-inner-nl", "named-tabs"):
            kinds.add("named")
        else:
            kinds.add("positional")
    return "+".join(sorted(kinds))


def check_list(ctx, shapes):
    args = render_args(shapes)
    exp = expected(args)
    if exp is None:
        return "ood", None
    vs = views(ctx, args)
    bad = []
    for name in ("parse", "template_fn", "lua"):
        v = vs[name]
        if isinstance(v, tuple):
            bad.append((name, "exception", v[1]))
        elif typed(v) != typed(exp):
            ks = sorted(map(repr, v)) != sorted(map(repr, exp))
            bad.append((name, "keys" if ks else "values", v))
    if not bad:
        return "ok", None
    name, what, v = bad[0]
    numeric_before_pos = False
    seen_num = False
    for s in shapes:
        if s.startswith("num-") and s not in ("num-0", "num-neg"):
            seen_num = True
        elif "=" not in SHAPES[s] and seen_num:
            numeric_before_pos = True
    sig = {"kind": "view-differs", "view": name, "what": what,
           "shape": shape_class(shapes),
           "numeric_before_positional": numeric_before_pos,
           "others_agree": len(bad) == 1}
    return "viol", (sig, f"{name} view of {{{{t|{'|'.join(args)}}}}} = {v!r} "
                         f"expected {exp!r}"[:400])


def nontrivial(shapes):
    kinds = shape_class(shapes)
    ws = any(s in ("lead-blank", "trail-blank", "lead-newline", "named-blanks",
                   "two-word-key", "num-3-nl", "named-inner-nl",
                   "num-inner-nl", "named-tabs", "num-blank-name",
                   "num-nl-name", "num-spaced", "num-tab-name")
             for s in shapes)
    return "+" in kinds or ws


def shard(idx, nshards, seed, quick, n_random, known):
    env.setup()
    part = Part()
    ctx = env.new_ctx()
    lua_modules.install(ctx)
    buckets = {}

    def one(shapes, origin):
        shapes = list(shapes)
        status, detail = check_list(ctx, shapes)
        if status == "ood":
            part.excluded["duplicate key (precondition)"] += 1
            return
        part.case(h(shapes), nontrivial(shapes),
                  classes=["shape:" + shape_class(shapes), "gen:" + origin,
                           "len:%d" % len(shapes)],
                  sample={"args": render_args(shapes)})
        if status == "viol":
            sig, what = detail
            rep = {"shapes": shapes}
            for k in known:
                if sig_matches(k["signature"], sig):
                    if not part.excluded[k["id"]]:
                        part.violation(sig, what, rep)
                    part.excluded[k["id"]] += 1
                    return
            key = h(sig)
            if key not in buckets or len(shapes) < len(buckets[key][2]["shapes"]):
                buckets[key] = (sig, what, rep)

    n = 0
    for L in (1, 2, 3):
        for shapes in itertools.product(SHAPE_NAMES, repeat=L):
            n += 1
            if n % nshards == idx:
                one(shapes, "exhaustive")

    def body(shapes):
        one(shapes, "random")

    hyp.search(st.lists(st.sampled_from(SHAPE_NAMES), min_size=4, max_size=6),
               body, n_random, seed * 1000 + idx, shrink=False)
    try:
        ctx.close_db_conn()
    except Exception:
        pass
    for sig, what, rep in buckets.values():
        part.violation(sig, what, rep)
    return part.to_dict()


def run(run):
    quick = run.tier == "quick"
    procs = par.nprocs(run.tier)
    n_random = 300 if quick else 20000
    for d in par.map_shards(shard, [(i, procs, run.seed, quick, n_random,
                                     run.known) for i in range(procs)], procs):
        run.merge(d)
    run.exhaustive = True
    run.rule = (
        "All argument lists of length <= 3 over 24 argument shapes "
        "(positional plain / leading blank / trailing blank / leading newline "
        "/ inner newline; named plain / blank-padded / two-word key / "
        "non-ASCII / inner newline in the value / tab-padded; numeric names 2, "
        "02, 0, -1, 3 with newlines, 4 with inner newlines, 5, and 6-9 with "
        "blanks / newline / tabs around the name), names "
        "and values made distinct per position, plus Hypothesis lists of "
        "length 4-6; lists whose arguments resolve to one key are outside the "
        "precondition and counted. Oracle: TemplateNode.template_parameters, "
        "the map received by template_fn during expand, and the type-tagged "
        "dump of frame.args of an echo module must each equal the map given "
        "by the statement's rules (int keys for positional and positive "
        "numeric names, str otherwise; named trimmed, positional verbatim). "
        "Non-trivial = list mixes >= 2 argument kinds or has whitespace around "
        "a key / value; distinct by hash of the shape list."
    )
    run.trusted_base = ["fixtures/lua/* stand-ins", "fixtures/lua_modules.py"]


def replay(run, case):
    ctx = env.new_ctx()
    lua_modules.install(ctx)
    try:
        status, detail = check_list(ctx, case["shapes"])
    finally:
        ctx.close_db_conn()
    run.case(h(case["shapes"]), True, sample={"args": render_args(case["shapes"])})
    if status == "viol":
        run.violation(detail[0], detail[1], case)
