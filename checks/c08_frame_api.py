"""C08 — the Lua frame API is equivalent to the corresponding wikitext."""

import itertools

from hypothesis import strategies as st

from fixtures import lua_modules
from gens import exp
from refs import transclude as rt
from vlib import env, hyp, par
from vlib.bucket import exc_bucket, exc_text
from vlib.run import Part, h, sig_matches

PADS = ["", "", " ", "\n", "  ", " \n"]


# ---------------------------------------------------------------- part (a)
def ser(v):
    return str(len(v.encode("utf-8"))) + ":" + v


def dump_args(args):
    out = []
    for k, v in args.items():
        tag = "n" if isinstance(k, int) else "s"
        out.append(tag + ser(str(k)) + "=" + ser(v))
    out.sort(key=lambda s: s.encode("utf-8"))
    return "{" + ",".join(out) + "}"


# two fixed templates whose expansion carries whitespace at its edges: the
# only way a value gets edge whitespace AFTER expansion
EDGE_TEMPLATES = {
    "tws": {"body": [["T", " y "]], "wrapper": "plain", "junk": ""},
    "tnl": {"body": [["T", "\nz\n\n"], ["T", "w "]], "wrapper": "plain",
            "junk": ""},
}


def invoke_strategy(sub):
    edge = st.sampled_from([[["C", "tws", []]], [["C", "tnl", []]],
                            [["T", "a"], ["C", "tws", []]],
                            [["C", "tws", []], ["T", "b"]]])
    sub = st.one_of(sub, sub, sub, edge)
    pads = st.lists(st.sampled_from(PADS), min_size=4, max_size=4)
    arg = st.one_of(
        sub.map(lambda s: ["pos", s]),
        sub.map(lambda s: ["pos", s]),
        st.tuples(st.sampled_from(["k", "key", "n m", "1", "2", "3", "02",
                                   "é", "0", "00", "-1"]), sub, pads).map(
            lambda t: ["named", t[0], t[1], t[2]]),
    )
    return st.tuples(st.lists(arg, max_size=4),
                     st.sampled_from(["full", "full2"])).map(
        lambda t: ["INV", "echo", t[1], t[0]])


@st.composite
def args_case(draw):
    """(library, page) in which an invocation is certainly reached: an
    #invoke is planted at wrapper depth 0, 1 or 2 and a call chain from the
    page down to it is added."""
    lib, page = draw(exp.case_strategy(depth=3, n_max=3,
                                       invoke=invoke_strategy, nowiki=False))
    lib = {k: dict(v, body=list(v["body"])) for k, v in lib.items()}
    lib.update(EDGE_TEMPLATES)
    page = list(page)
    names = list(lib)
    sub = exp.seq_strategy(tuple(names[-1:]), 1, True, None, max_items=2,
                           nowiki=False)
    depth = draw(st.integers(0, min(2, len(names))))
    inv = draw(invoke_strategy(sub))
    arglist = exp._arglist((), True, False, None, True)
    if depth == 0:
        page.append(inv)
        return lib, page
    chain = names[:depth]
    lib[chain[-1]]["body"].append(inv)
    for a, b in zip(chain, chain[1:]):
        lib[a]["body"].append(["C", b, draw(arglist)])
    page.append(["C", chain[0], draw(arglist)])
    return lib, page


KEY_SHAPES = ["0", "00", "000", "1", "01", "2", "-1", "+1", "1.0", "k", "é",
              "1 1"]
KEY_SHARDS = 8


def key_shape_cases():
    """{{w|K1=a|K2=b}} with Template:w = {{#invoke:echo|full|K1=c|K2=d}} and
    the same one wrapper further out: names that are, or only look like,
    positive integers (zero, padded zero, signs, decimals) in every pair."""
    pads = ["", "", "", ""]
    for k1 in KEY_SHAPES:
        for k2 in KEY_SHAPES:
            outer = [["named", k1, [["T", "a"]], pads],
                     ["named", k2, [["T", "b"]], pads]]
            # inner newlines in named values are kept (only the edges are
            # trimmed); the second value ends in one
            inner = [["named", k1, [["T", "c\nc2"]], pads],
                     ["named", k2, [["T", "d"]], ["", " ", "\n", "\n"]]]
            inv = ["INV", "echo", "full", inner]
            lib1 = {"ta": {"body": [inv], "wrapper": "plain", "junk": ""}}
            yield lib1, [["C", "ta", outer]]
            lib2 = {"ta": {"body": [["C", "tb", outer]], "wrapper": "plain",
                           "junk": ""},
                    "tb": {"body": [["INV", "echo", "full", []]],
                           "wrapper": "plain", "junk": ""}}
            yield lib2, [["C", "ta", [["pos", [["T", "z"]]]]]]


def invoke_model(it, n, frame, selective):
    """Reference value of {{#invoke:echo|full|...}}: the statement's rules
    applied to the call's arguments and the enclosing template's frame."""
    args = it.build_args(n[3], frame)
    it.stats["invokes"] = it.stats.get("invokes", 0) + 1
    it.stats["invoke_depth"] = max(it.stats.get("invoke_depth", 0),
                                   len(it.stack))
    kinds = {a[0] for a in n[3]}
    if len(kinds) == 2:
        it.stats["invoke_mixed"] = 1
    s = "T" + ser("Module:echo") + dump_args(args)
    if frame is not None:
        s += "P" + ser("Template:" + frame.title) + dump_args(frame.args)
    else:
        s += "P-"
    return s


def has_literal_param_in_call_args(page):
    """Page-level {{{p}}} without default inside the arguments of a call: the
    value is the literal text '{{{p}}}' (C04) — kept, it is what the parent
    frame must carry."""
    return False


def run_a(lib, page):
    text = exp.render(page)
    try:
        want, it = rt.evaluate(page, lib, invoke_fn=invoke_model)
    except (rt.OutOfDomain, rt.Budget) as e:
        return "ood", str(e), None, text
    if not it.stats.get("invokes"):
        return "ood", "no invocation reached", None, text
    ctx = env.new_ctx()
    try:
        lua_modules.install(ctx)
        exp.install(ctx, lib)
        ctx.start_page("Test page")
        try:
            got = ctx.expand(text)
        except Exception as e:
            return "viol", ({"part": "args", "kind": "exception",
                             **exc_bucket(e)}, exc_text(e)), it, text
    finally:
        ctx.close_db_conn()
    if got != want:
        cls = "content"
        if "Lua execution error" in got:
            cls = "lua-error"
        elif got.replace(" ", "").replace("\n", "") == \
                want.replace(" ", "").replace("\n", ""):
            cls = "whitespace"
        sig = {"part": "args", "kind": "mismatch", "class": cls,
               "literal_param": "{{{" in want}
        return "viol", (sig, f"expand({text!r}) = {got!r}, frame rules give "
                             f"{want!r}"[:600]), it, text
    return "ok", None, it, text


# ---------------------------------------------------------------- part (b)
def lua_long(s):
    for lvl in range(0, 8):
        close = "]" + "=" * lvl + "]"
        if (s + close).find(close) == len(s):
            return "[" + "=" * lvl + "[\n" + s + close
    raise ValueError("cannot quote")


def lua_value(v):
    if isinstance(v, int):
        return str(v)
    return lua_long(v)


def lua_key(k):
    if isinstance(k, int):
        return "[%d]" % k
    return "[ " + lua_long(k) + " ]"


ATOMS = ["a", "b c", " x", "y ", " p q ", "Bar", "1", "10", "é", "ABC",
         "a.b", "x-y", "q?r", "\nz", "", "0", "5", "2",
         # a pipe in a value a module passes: written {{!}} in a call
         "x|y", "|", "p|q=r"]
PFNS = ["#if", "#ifeq", "#switch", "lc", "uc", "#len", "#sub", "padleft",
        "ucfirst", "#pos"]


@st.composite
def api_case(draw):
    kind = draw(st.sampled_from(["preprocess", "preprocess", "expandTemplate",
                                 "callParserFunction",
                                 "callParserFunction-table"]))
    depth = draw(st.sampled_from([0, 0, 1]))
    if kind == "preprocess":
        lib, page = draw(exp.case_strategy(depth=3, n_max=3, nowiki=True))
        return {"kind": kind, "depth": depth, "lib": lib, "page": page}
    if kind == "preprocess-in-template":
        # the fragment is a template body: it may refer to {{{parameters}}}
        lib = draw(exp.library(n_max=3, depth=2))
        frag = draw(exp.seq_strategy(tuple(lib), 2, True, None, max_items=4))
        call_args = draw(exp._arglist(tuple(lib), False, True, None, True))
        return {"kind": kind, "depth": 1, "lib": lib, "page": frag,
                "call_args": call_args}
    if kind == "expandTemplate":
        lib = draw(exp.library(n_max=3, depth=2))
        title = draw(st.sampled_from(list(lib) + ["nope"]))
        keys = draw(st.lists(st.sampled_from([1, 2, 3, "k", "key", "n m"]),
                             unique=True, max_size=4))
        vals = [draw(st.sampled_from(ATOMS)) for _ in keys]
        return {"kind": kind, "depth": depth, "lib": lib, "title": title,
                "args": [[k, v] for k, v in zip(keys, vals)]}
    name = draw(st.sampled_from(PFNS))
    n = draw(st.integers(1, 4))
    if name == "#switch":
        vals = [draw(st.sampled_from(["a", "b", "x"]))]
        for _ in range(n):
            vals.append(draw(st.sampled_from(["a=1", "b=2", "x", "#default=d",
                                              "c= 3 ", "q"])))
    else:
        # wikitext cannot express an argument with leading / trailing
        # blanks (the call syntax trims them), so there is no equivalent
        # call for such values: inner blanks only
        # ... and a pipe inside a parser-function argument has no spelling
        # either ({{!}} is only resolved in template-call arguments here)
        vals = [draw(st.sampled_from([a for a in ATOMS if "|" not in a])
                     ).strip() for _ in range(n)]
    return {"kind": kind, "depth": depth, "name": name, "args": vals,
            "lib": {}}


def build_api(case, modname):
    """Returns (module source, equivalent wikitext)."""
    k = case["kind"]
    if k in ("preprocess", "preprocess-in-template"):
        t = exp.render(case["page"])
        src = ("local p = {}\nfunction p.f(frame)\n  return '<' .. "
               "frame:preprocess(" + lua_long(t) + ") .. '>'\nend\nreturn p\n")
        return src, t
    if k == "expandTemplate":
        items = ", ".join(lua_key(a) + " = " + lua_long(v)
                          for a, v in case["args"])
        src = ("local p = {}\nfunction p.f(frame)\n  return '<' .. "
               "frame:expandTemplate{ title = " + lua_long(case["title"])
               + ", args = {" + items + "} } .. '>'\nend\nreturn p\n")
        wt = "{{" + "|".join([case["title"]] + [
            f"{a}=" + v.replace("|", "{{!}}") for a, v in
            sorted(case["args"], key=lambda x: str(x[0]))]) + "}}"
        return src, wt
    name, vals = case["name"], case["args"]
    if k == "callParserFunction":
        call = "frame:callParserFunction(" + ", ".join(
            [lua_long(name)] + [lua_long(v) for v in vals]) + ")"
    else:
        call = ("frame:callParserFunction{ name = " + lua_long(name)
                + ", args = {" + ", ".join(lua_long(v) for v in vals) + "} }")
    src = ("local p = {}\nfunction p.f(frame)\n  return '<' .. " + call
           + " .. '>'\nend\nreturn p\n")
    wt = "{{" + name + ":" + "|".join(v.replace("|", "{{!}}")
                                      for v in vals) + "}}"
    return src, wt


_counter = itertools.count(1)


def domain_b(case, wt):
    import re

    if case["kind"] == "preprocess":
        if re.fullmatch(r"(=+)([^=]+)\1", wt):
            return False
    return True


def run_b(ctx, case):
    modname = "v%d" % next(_counter)
    src, wt = build_api(case, modname)
    if not domain_b(case, wt):
        return "ood", None, wt
    ctx.add_page("Module:" + modname, 828, src, model="Scribunto")
    if case["kind"] == "preprocess-in-template":
        # metamorphic: preprocess(t) inside a template's frame equals t
        # written directly in a template body called with the same arguments
        argtxt = "".join("|" + exp.render_arg(a) for a in case["call_args"])
        ctx.add_page("Template:w" + modname, 10,
                     "{{#invoke:" + modname + "|f}}")
        ctx.add_page("Template:d" + modname, 10, "<" + wt + ">")
        call = "{{w" + modname + argtxt + "}}"
        wt = "{{d" + modname + argtxt + "}}"
        try:
            ctx.start_page("Test page")
            got = ctx.expand(call)
            ctx.start_page("Test page")
            want = ctx.expand(wt)
        except Exception as e:
            return "viol", ({"part": "api", "api": case["kind"],
                             "kind": "exception", **exc_bucket(e)},
                            f"{wt!r}: {exc_text(e)}"), wt
        if got != want:
            return "viol", ({"part": "api", "api": case["kind"],
                             "kind": "mismatch", "fn": None, "depth": 1,
                             "edge_blank": False},
                            f"module calling frame:preprocess({src!r}) inside "
                            f"a template called as {call!r} gives {got!r}; the "
                            f"same text as template body gives {want!r}"[:700]), wt
        return "ok", None, wt
    if case["depth"] == 0:
        call = "{{#invoke:" + modname + "|f}}"
    else:
        ctx.add_page("Template:w" + modname, 10,
                     "{{#invoke:" + modname + "|f}}")
        call = "{{w" + modname + "}}"
    try:
        ctx.start_page("Test page")
        got = ctx.expand(call)
        ctx.start_page("Test page")
        want = "<" + ctx.expand(wt) + ">"
    except Exception as e:
        return "viol", ({"part": "api", "api": case["kind"],
                         "kind": "exception", **exc_bucket(e)},
                        f"{wt!r}: {exc_text(e)}"), wt
    if got != want:
        sig = {"part": "api", "api": case["kind"], "kind": "mismatch",
               "fn": case.get("name"), "depth": case["depth"],
               "edge_blank": any(isinstance(v, str) and v != v.strip()
                                 for v in (case.get("args") or [])
                                 if not isinstance(v, list))}
        return "viol", (sig, f"frame:{case['kind']} gives {got!r}; "
                             f"expand({wt!r}) gives {want!r}"[:600]), wt
    return "ok", None, wt


# ------------------------------------------------------------------- driver
def has_params(seq):
    for n in seq:
        if n[0] == "P":
            return True
        for x in n[1:]:
            if isinstance(x, list) and x and isinstance(x[0], list):
                if has_params([y for y in x if isinstance(y, list) and y
                               and isinstance(y[0], str)]):
                    return True
    return False


def shard(idx, seed, n_a, n_b, known):
    env.setup()
    part = Part()
    buckets = {}

    def record(sig, what, rep, size):
        for k in known:
            if sig_matches(k["signature"], sig):
                if not part.excluded[k["id"]]:
                    part.violation(sig, what, rep)
                part.excluded[k["id"]] += 1
                return
        key = h(sig)
        if key not in buckets or size < buckets[key][3]:
            buckets[key] = (sig, what, rep, size)

    def body_a(case):
        lib, page = case
        status, detail, it, text = run_a(lib, page)
        if status == "ood":
            part.excluded["args: " + (detail.split(" ")[0] if detail else "")] += 1
            return
        stt = it.stats
        cls = ["args", "args-depth:%d" % min(stt.get("invoke_depth", 0), 2)]
        if stt.get("invoke_mixed"):
            cls.append("args-mixed-kinds")
        if stt["named_blank"]:
            cls.append("args-named-blank")
        nt = stt.get("invoke_depth", 0) >= 1 or (
            stt.get("invoke_mixed") and stt["named_blank"])
        part.case(h(text), bool(nt), classes=cls, sample={"page": text,
                                                           "templates": {
            k: exp.wrap_body(v["body"], v["wrapper"], v["junk"])
            for k, v in lib.items()}})
        if status == "viol":
            record(detail[0], detail[1],
                   {"kind": "args", "lib": lib, "page": page}, len(text))

    # every ordered pair of argument-name shapes on a wrapper call and on the
    # invocation itself, seen from the module at wrapper depth 1 and 2
    for j, case in enumerate(key_shape_cases()):
        if j % KEY_SHARDS == idx % KEY_SHARDS and (idx < KEY_SHARDS):
            body_a(case)

    hyp.search(args_case(), body_a, n_a, seed * 1000 + idx, shrink=False)

    ctx = env.new_ctx()
    lua_modules.install(ctx)
    ctx.add_page("Template:!", 10, "|")
    installed = [None]

    def body_b(case):
        # one context per library keeps module / template names unique
        nonlocal ctx
        if case["lib"] or part.evaluations % 200 == 0:
            try:
                ctx.close_db_conn()
            except Exception:
                pass
            ctx = env.new_ctx()
            lua_modules.install(ctx)
            # the pipe-in-a-value spelling {{!}} (a template on the wikis
            # this package is used with)
            ctx.add_page("Template:!", 10, "|")
            exp.install(ctx, case["lib"])
        status, detail, wt = run_b(ctx, case)
        if status == "ood":
            part.excluded["api: heading-shaped preprocess input"] += 1
            return
        nested = wt.count("{{") >= 2
        part.case(h((case["kind"], wt, case["depth"])),
                  nested or case["depth"] >= 1,
                  classes=["api:" + case["kind"], "api-depth:%d" % case["depth"]]
                  + (["api-fn:" + case["name"]] if case.get("name") else []),
                  sample={"api": case["kind"], "wikitext": wt})
        if status == "viol":
            record(detail[0], detail[1], {"kind": "api", "case": case},
                   len(wt))

    hyp.search(api_case(), body_b, n_b, seed * 1000 + 500 + idx, shrink=False)
    try:
        ctx.close_db_conn()
    except Exception:
        pass
    for sig, what, rep, _ in buckets.values():
        part.violation(sig, what, rep)
    return part.to_dict()


def run(run):
    quick = run.tier == "quick"
    procs = par.nprocs(run.tier)
    n_a = 250 if quick else 12000
    n_b = 350 if quick else 15000
    for d in par.map_shards(shard, [(i, run.seed, n_a, n_b, run.known)
                                    for i in range(procs)], procs):
        run.merge(d)
    run.rule = (
        "(a) pages and template libraries (<= 3 templates, nesting to 3) from "
        "the expansion grammar with {{#invoke:echo|full|...}} calls at "
        "wrapper depth 0-2 whose arguments mix positional, named and numeric "
        "names with blanks / newlines and nested calls as values; the echo "
        "module returns a type-tagged, length-prefixed dump of frame.args "
        "(read once through pairs, or - function full2 - three times through "
        "index and pairs, which must agree), "
        "the parent title and parent args. Oracle: exact equality of the "
        "whole expansion with the reference transclusion interpreter extended "
        "by the statement's frame rules (positional from 1 verbatim, named "
        "trimmed, evaluated in the caller's frame; parent = enclosing "
        "template's stored title and argument map; returned string replaces "
        "the call). (b) generated modules calling frame:preprocess on "
        "grammar fragments, frame:expandTemplate{title,args} and "
        "frame:callParserFunction (varargs and table form) for #if #ifeq "
        "#switch lc uc #len #sub padleft ucfirst #pos, at page level and "
        "inside a wrapper template; oracle: equals expand() of the "
        "equivalent wikitext on a fresh page. Non-trivial: (a) invocation "
        "inside a template or mixed argument kinds with blanks; (b) nested "
        "call in the fragment or wrapper depth 1."
    )
    run.assumptions = [
        "no <nowiki> in part (a) (byte lengths in the dump are taken before "
        "strip markers are resolved)",
        "positional values never end in a newline (documented intentional "
        "stripping, see C04)",
        "preprocess input of the exact shape ==x== is excluded (documented "
        "heading strip-marker special case)",
        "expandTemplate values are plain text; the equivalent call is "
        "written k=v for every argument",
        "frame:preprocess is compared with expansion at page level: a "
        "{{{p}}} in the fragment is a page-level parameter reference "
        "(literal, or its default) also when the module is invoked from "
        "inside a template",
    ]
    run.trusted_base = ["fixtures/lua_modules.py echo module",
                        "fixtures/lua/* stand-ins", "refs/transclude.py"]


def replay(run, case):
    env.setup()
    if case["kind"] == "args":
        status, detail, it, text = run_a(case["lib"], case["page"])
        run.case(h(text), True, sample={"page": text})
        if status == "viol":
            run.violation(detail[0], detail[1], case)
        return
    c = case["case"]
    ctx = env.new_ctx()
    lua_modules.install(ctx)
    ctx.add_page("Template:!", 10, "|")
    exp.install(ctx, c.get("lib") or {})
    try:
        status, detail, wt = run_b(ctx, c)
    finally:
        ctx.close_db_conn()
    run.case(h((c["kind"], wt)), True, sample={"api": c["kind"],
                                               "wikitext": wt})
    if status == "viol":
        run.violation(detail[0], detail[1], case)
