"""C07 — every Lua invocation is stopped by its time limit and the context
stays usable."""

import itertools
import time

from fixtures import lua_modules
from vlib import env, par
from vlib.run import Part, h, sig_matches

T = 1                 # configured limit (seconds)
SLACK = 2.0           # by design: os.time() granularity, hook every 1e5 instr.
MARGIN = 3.0          # loaded machine
BOUND = T + SLACK + MARGIN
WATCHDOG = BOUND + 6.0

# name -> (lua statements, terminates_by_itself)
BODIES = {
    "while": ("while true do end", False),
    "repeat": ("repeat until false", False),
    "for-huge": ("for i = 1, math.huge do end", False),
    "tail-rec": ("local function f() return f() end\n f()", False),
    "string-fns": ("while true do local s = string.rep('a', 50)\n"
                   " s = s:gsub('a', 'b')\n string.find(s, 'b')\n"
                   " string.format('%d', 1) end", False),
    "table-fns": ("local t = {}\n while true do table.insert(t, 1)\n"
                  " if #t > 200 then t = {} end\n table.sort(t) end", False),
    "mw-fns": ("while true do mw.text.trim(' x ')\n mw.ustring.len('abc') end",
               False),
    "preprocess-loop": ("while true do frame:preprocess('plain text') end",
                        False),
    "deep-rec": ("local function r(n) return 1 + r(n + 1) end\n r(1)", True),
    "long-c-call": ("string.find(string.rep('a', 40), "
                    "string.rep('a*', 40) .. 'b')", False),
}

WRAPPERS = {
    "none": "BODY",
    "pcall": "pcall(function() BODY end)",
    "xpcall": "xpcall(function() BODY end, function(e) return e end)",
    "nested-pcall": "pcall(function() pcall(function() pcall(function() BODY "
                    "end) end) end)",
    "retry-forever": "while true do pcall(function() BODY end) end",
    "handler-loops": "xpcall(function() error('x') end, function(e) BODY end)",
    # the protected function runs into the limit AND the message handler
    # would loop as well (it must not be run at all after the limit)
    "xpcall-both-loop": "xpcall(function() BODY end, function(e) while true "
                        "do end end)",
    "xpcall-both-nested": "pcall(function() xpcall(function() BODY end, "
                          "function(e) local i = 0; repeat i = i + 1 until "
                          "false end) end)",
    "index-meta": "local o = setmetatable({}, {__index = function() BODY end})"
                  "\n local _ = o.x",
    "call-meta": "local o = setmetatable({}, {__call = function() BODY end})"
                 "\n o()",
    # the library by every route a module has (global, require, loader cache)
    "coroutine": "local co_lib = coroutine\n"
                 " if type(co_lib) ~= 'table' then local ok, m = pcall(require, "
                 "'coroutine'); if ok then co_lib = m end end\n"
                 " if type(co_lib) ~= 'table' then local ok, m = pcall("
                 "_cached_mod, 'coroutine'); if ok then co_lib = m end end\n"
                 " if type(co_lib) ~= 'table' then error('no coroutine library') end\n"
                 " local co = co_lib.create(function() BODY end)\n"
                 " while true do co_lib.resume(co) end",
    "coroutine-wrap": "local co_lib = coroutine\n"
                      " if type(co_lib) ~= 'table' then local ok, m = pcall("
                      "require, 'coroutine'); if ok then co_lib = m end end\n"
                      " if type(co_lib) ~= 'table' then error('no coroutine library') end\n"
                      " co_lib.wrap(function() BODY end)()",
}

PRELUDES = {
    "none": "",
    "clear-hook": "pcall(_lua_clear_timeout_hook)",
    "set-timeout-big": "pcall(_lua_set_timeout, 50)",
    "io-flush": "pcall(_lua_io_flush)",
    "set-loader": "pcall(_lua_set_python_loader, function() return nil end)",
    "top-env": "pcall(_python_top_env)",
    "nested-invoke": "local nested = frame:preprocess('{{#invoke:echo|f|n}}')",
    "nested-invoke-twice": "frame:preprocess('{{#invoke:echo|f|a}}"
                           "{{#invoke:echo|f|b}}')",
    "nested-error": "frame:preprocess('{{#invoke:bad|err}}')",
    # a nested invocation that itself runs into the limit; the outer code
    # gets its in-band error text back and goes on (into BODY)
    "nested-timeout": "frame:preprocess('{{#invoke:bad|loop}}')",
    "nested-timeout-pcall": "pcall(function() frame:preprocess("
                            "'{{#invoke:bad|loop}}') end)",
    "nested-timeout-template": "frame:expandTemplate{ title = 'tloopinv' }",
    # a nested invocation that ends in a host-side exception (missing module
    # or function, its own time limit, a failing callback), then a benign
    # nested invocation, then BODY: what the first leaves behind decides how
    # the second is treated (outermost or nested) and what it resets
    "nested-missing-then-nested": "frame:preprocess('{{#invoke:nomod|f}}'); "
                                  "frame:preprocess('{{#invoke:echo|f|n}}')",
    "nested-nofn-then-nested": "frame:preprocess('{{#invoke:bad|nofn}}'); "
                               "frame:preprocess('{{#invoke:echo|f|n}}')",
    "nested-error-then-nested": "frame:preprocess('{{#invoke:bad|err}}'); "
                                "frame:preprocess('{{#invoke:echo|f|n}}')",
    "nested-timeout-then-nested": "frame:preprocess('{{#invoke:bad|loop}}'); "
                                  "frame:preprocess('{{#invoke:echo|f|n}}')",
    "nested-misuse-then-nested": "pcall(function() frame:expandTemplate{"
                                 "title = 5} end); "
                                 "frame:preprocess('{{#invoke:echo|f|n}}')",
    "nested-missing-twice": "frame:preprocess('{{#invoke:nomod|f}}"
                            "{{#invoke:nomod2|g}}{{#invoke:echo|f|n}}')",
}


def program(body, wrapper, prelude):
    b, _ = BODIES[body]
    code = WRAPPERS[wrapper].replace("BODY", b)
    return ("local p = {}\nfunction p.main(frame)\n " + PRELUDES[prelude]
            + "\n " + code + "\n return 'finished'\nend\nreturn p\n")


BENIGN = [
    # first of all (state left behind by the aborted invocation is most
    # likely to hit the very next one): a module that catches an ordinary
    # error of its own
    ("{{#invoke:work|catch}}", "falsefalseH"),
    ("{{#invoke:echo|f|x}}", "<x>"),
    ("{{#invoke:echo|f| y }}", "< y >"),
    ("{{#invoke:echo|dump|a|k=v}}", "{n1:1=1:a,s1:k=1:v}"),
    ("a{{#invoke:echo|pp|{{#invoke:echo|f|in}}}}b", "a<in>b"),
    ("{{#if:x|{{#invoke:echo|f|z}}}}", "<z>"),
    # a benign module that catches an ordinary error, and one that simply
    # computes for a while (well inside the limit)
    ("{{#invoke:work|catch}}", "falsefalseH"),
    ("{{#invoke:work|heavy}}", "1200003"),
    ("{{#invoke:work|heavy}}{{#invoke:work|catch}}", "1200003falsefalseH"),
]


def child(body, wrapper, prelude):
    """Runs in a forked child; returns a dict of observations."""
    env.setup()
    ctx = env.new_ctx()
    lua_modules.install(ctx)
    ctx.add_page("Module:prog", 828, program(body, wrapper, prelude),
                 model="Scribunto")
    ctx.add_page("Template:tloopinv", 10, "{{#invoke:bad|loop}}")
    title = "Timeout page"
    ctx.start_page(title)
    # warm-up: Lua start-up is not part of the limit
    warm = ctx.expand("{{#invoke:echo|f|w}}")
    obs = {"warm": warm}
    t0 = time.time()
    try:
        out = ctx.expand("x{{#invoke:prog|main}}y", timeout=T)
        obs["out"] = out
    except BaseException as e:
        obs["exc"] = f"{type(e).__name__}: {e}"[:300]
    obs["elapsed"] = time.time() - t0
    obs["expand_stack"] = list(ctx.expand_stack)
    obs["env_stack"] = len(ctx.lua_env_stack)
    obs["frame_stack"] = len(ctx.lua_frame_stack)
    obs["benign"] = []
    for text, want in BENIGN:
        try:
            t1 = time.time()
            got = ctx.expand(text, timeout=T)
            obs["benign"].append((text, got, want, time.time() - t1))
        except BaseException as e:
            obs["benign"].append((text, f"EXC {type(e).__name__}: {e}"[:200],
                                  want, 0.0))
    # the limit must keep working on the same context
    t2 = time.time()
    try:
        obs["again"] = ctx.expand("{{#invoke:bad|loop}}", timeout=T)
    except BaseException as e:
        obs["again"] = f"EXC {type(e).__name__}: {e}"[:200]
    obs["again_elapsed"] = time.time() - t2
    # a new page on the same context
    ctx.start_page("Second page")
    try:
        obs["next_page"] = ctx.expand("{{#invoke:echo|f|np}}")
    except BaseException as e:
        obs["next_page"] = f"EXC {type(e).__name__}: {e}"[:200]
    return obs


TIMEOUT_EL = ('<strong class="error">Lua timeout error in Module:prog '
              "function main</strong>")


def judge(body, wrapper, prelude, status, obs, el):
    """Returns list of (sig, what)."""
    out = []
    base = {"body": body, "wrapper": wrapper, "prelude": prelude}
    prog = f"body={body} wrapper={wrapper} prelude={prelude}"
    if status == "timeout":
        return [({"kind": "not-stopped", **base},
                 f"{prog}: expand(..., timeout={T}) had not returned after "
                 f"{el:.1f} s (watchdog); the limit is {T} s")]
    if status != "ok":
        return [({"kind": "child-failed", **base}, f"{prog}: {status} {obs!r}"[:300])]
    if "exc" in obs:
        out.append(({"kind": "exception", **base},
                    f"{prog}: expand raised {obs['exc']}"))
        return out
    self_ending = BODIES[body][1] or wrapper.startswith("coroutine")
    if obs["elapsed"] > BOUND:
        out.append(({"kind": "late", **base},
                    f"{prog}: returned after {obs['elapsed']:.1f} s, bound "
                    f"{BOUND:.0f} s for a {T} s limit"))
    want = "x" + TIMEOUT_EL + "y"
    if obs["out"] != want:
        if self_ending and obs["out"].startswith("x") and \
                obs["out"].endswith("y"):
            pass  # ended by itself (stack overflow / missing library): in-band
        else:
            out.append(({"kind": "wrong-value", **base},
                        f"{prog}: expansion {obs['out']!r}, expected the "
                        f"timeout element"))
    if obs["expand_stack"] != ["Timeout page"] or obs["env_stack"] or \
            obs["frame_stack"]:
        out.append(({"kind": "stacks-not-restored", **base},
                    f"{prog}: expand_stack={obs['expand_stack']!r} "
                    f"lua_env_stack={obs['env_stack']} "
                    f"lua_frame_stack={obs['frame_stack']}"))
    for text, got, want_b, el_b in obs["benign"]:
        if got != want_b:
            out.append(({"kind": "context-unusable", **base},
                        f"{prog}: afterwards expand({text!r}) = {got!r}, "
                        f"expected {want_b!r}"))
            break
    again_want = ('<strong class="error">Lua timeout error in Module:bad '
                  "function loop</strong>")
    if obs["again"] != again_want or obs["again_elapsed"] > BOUND:
        out.append(({"kind": "limit-lost", **base},
                    f"{prog}: afterwards a plain endless loop gave "
                    f"{obs['again']!r} after {obs['again_elapsed']:.1f} s"))
    if obs["next_page"] != "<np>":
        out.append(({"kind": "context-unusable-next-page", **base},
                    f"{prog}: next page gave {obs['next_page']!r}"))
    return out


def run_one(args):
    body, wrapper, prelude = args
    status, obs, el = par.fork_child(child, (body, wrapper, prelude),
                                     timeout=WATCHDOG)
    return (body, wrapper, prelude, judge(body, wrapper, prelude, status, obs,
                                          el),
            None if status != "ok" else obs.get("elapsed"))


def select(tier, seed):
    allp = list(itertools.product(BODIES, WRAPPERS, PRELUDES))
    if tier != "quick":
        return allp
    import random

    rnd = random.Random(seed)
    core = set()
    # every body bare, every wrapper on the plain loop, every prelude on it
    for b in BODIES:
        core.add((b, "none", "none"))
    for w in WRAPPERS:
        core.add(("while", w, "none"))
    for p in PRELUDES:
        core.add(("while", "none", p))
        core.add(("while", "pcall", p))
    rest = [x for x in allp if x not in core]
    rnd.shuffle(rest)
    return sorted(core) + rest[:14]


def run(run):
    procs = par.nprocs(run.tier)
    progs = select(run.tier, run.seed)
    res = par.map_shards(run_one, [(p,) for p in progs], procs)
    seen_known = set()
    for body, wrapper, prelude, viols, el in res:
        nt = wrapper != "none" or prelude != "none"
        run.case(h((body, wrapper, prelude)), nt,
                 classes=["body:" + body, "wrapper:" + wrapper,
                          "prelude:" + prelude],
                 sample={"body": body, "wrapper": wrapper, "prelude": prelude,
                         "elapsed_s": None if el is None else round(el, 2),
                         "source": program(body, wrapper, prelude)})
        for sig, what in viols:
            run.violation(sig, what, {"body": body, "wrapper": wrapper,
                                      "prelude": prelude})
    run.exhaustive = run.tier != "quick"
    run.extra["programs_in_product"] = len(BODIES) * len(WRAPPERS) * len(PRELUDES)
    run.rule = (
        f"Programs = {len(PRELUDES)} preludes (incl. nested invocations that are benign, erroring or themselves timing out) x {len(BODIES)} bodies x "
        f"{len(WRAPPERS)} wrappers ({len(BODIES) * len(WRAPPERS) * len(PRELUDES)}"
        " programs; thorough runs all, quick runs every body bare, every "
        "wrapper and every prelude on the plain loop, plus 14 seeded random "
        f"others). Each runs in its own forked child with timeout={T}: "
        "expand() must return within "
        f"{BOUND:.0f} s ({T} s limit + {SLACK:.0f} s by-design granularity + "
        f"{MARGIN:.0f} s margin; the child is killed after {WATCHDOG:.0f} s) "
        "with the 'Lua timeout error' element (bodies that end by "
        "themselves may return any in-band value); afterwards expand_stack / "
        "lua_env_stack / lua_frame_stack are back at page level, five benign "
        "invocations give their known values, an endless loop is again "
        "stopped by the limit, and a new page works. Non-trivial = program "
        "has a wrapper or a prelude."
    )
    run.assumptions = [
        "wall-clock bound with a 3 s margin; a watchdog expiry is reported "
        "as a violation of this property because its statement is about "
        "bounded time",
    ]
    run.trusted_base = ["fixtures/lua/* stand-ins", "vlib/par.py fork_child"]


def replay(run, case):
    b, w, p = case["body"], case["wrapper"], case["prelude"]
    _, _, _, viols, el = run_one((b, w, p))
    run.case(h((b, w, p)), True, sample={"body": b, "wrapper": w,
                                         "prelude": p})
    for sig, what in viols:
        run.violation(sig, what, case)
