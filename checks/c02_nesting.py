"""C02 — section, list and rule nesting follows the nesting model."""

import itertools
import re

from hypothesis import strategies as st

from refs import outline as ro
from refs import tree as rtree
from vlib import env, hyp, par
from vlib.bucket import exc_bucket, exc_text
from vlib.run import Part, h, sig_matches

SENT = re.compile(r"S(\d+)x")
MARKERS = ["".join(p) for n in range(1, 5) for p in itertools.product("*#", repeat=n)]
FILLER_KINDS = list(ro.FILLERS)
INLINE_KINDS = [k for k in ro.INLINE if k is not None]


def extract(root, NodeKind, WikiNode):
    """Sentinel -> (sections, lists); plus LEVEL / LIST_ITEM / HLINE records
    in document order; LIST node identity per item."""
    K = NodeKind
    from wikitextprocessor.parser import KIND_TO_LEVEL

    sent = {}
    heads, items, hrs = [], [], []
    dup = []

    def title_sid(node):
        txt = "".join(x for x in (node.largs[0] if node.largs else [])
                      if isinstance(x, str))
        m = SENT.search(txt)
        return int(m.group(1)) if m else None

    def note(text, secs, lists):
        for m in SENT.finditer(text):
            sid = int(m.group(1))
            if sid in sent:
                dup.append(sid)
            sent[sid] = (secs, lists)

    def visit(n, secs, lists, list_id):
        if isinstance(n, str):
            note(n, secs, lists)
            return
        k = n.kind
        if k in KIND_TO_LEVEL and k != K.ROOT:
            lvl = KIND_TO_LEVEL[k]
            sid = title_sid(n)
            heads.append((lvl, sid, secs))
            inner = secs + ((lvl, sid),)
            for sub in n.largs:
                for x in sub:
                    visit(x, inner, (), None)
            for c in n.children:
                visit(c, inner, lists, None)
            return
        if k == K.LIST:
            for c in n.children:
                visit(c, secs, lists, (id(n), n.sarg))
            return
        if k == K.LIST_ITEM:
            lp = list_id[1] if list_id else None
            inner = lists + ((lp, n.sarg),)
            first_sid = None
            for c in n.children:
                if isinstance(c, str):
                    m = SENT.search(c)
                    if m:
                        first_sid = int(m.group(1))
                        break
            items.append((n.sarg, first_sid, secs, lists,
                          list_id[0] if list_id else None))
            for c in n.children:
                visit(c, secs, inner, None)
            if n.definition:
                for c in n.definition:
                    visit(c, secs, inner, None)
            return
        if k == K.HLINE:
            hrs.append(secs)
        for sub in n.largs:
            for x in sub:
                visit(x, secs, lists, None)
        for c in n.children:
            visit(c, secs, lists, None)

    for c in root.children:
        visit(c, (), (), None)
    return sent, heads, items, hrs, dup


def check_outline(ctx, outline):
    from wikitextprocessor import NodeKind, WikiNode

    text = ro.render(outline)
    ctx.start_page("Test")
    try:
        root = ctx.parse(text)
    except Exception as e:
        return ({"kind": "exception", **exc_bucket(e)}, exc_text(e)), text
    probs = rtree.check_tree(root, "Test", NodeKind, WikiNode)
    if probs:
        return ({"kind": "tree", "rule": probs[0][0]}, str(probs[0])), text
    want_sent, want_heads, want_items, want_hrs = ro.model(outline)
    sent, heads, items, hrs, dup = extract(root, NodeKind, WikiNode)
    if dup:
        return ({"kind": "duplicate-sentinel"},
                f"sentinel S{dup[0]}x appears twice in the tree"), text
    if [(a, b) for a, b, _ in heads] != [(a, b) for a, b, _ in want_heads]:
        return ({"kind": "heading-nodes"},
                f"LEVEL nodes {[(a, b) for a, b, _ in heads]} expected "
                f"{[(a, b) for a, b, _ in want_heads]}"), text
    for (lv, sid, par_), (_, _, wpar) in zip(heads, want_heads):
        if par_ != wpar:
            return ({"kind": "heading-parent", "level": lv},
                    f"heading S{sid}x (level {lv}) under {par_} expected "
                    f"{wpar}"), text
    if len(hrs) != len(want_hrs):
        return ({"kind": "hline-count"},
                f"{len(hrs)} HLINE nodes expected {len(want_hrs)}"), text
    for i, (g, w) in enumerate(zip(hrs, want_hrs)):
        if g != w:
            return ({"kind": "hline-parent",
                     "top": (w[-1][0] if w else 0)},
                    f"rule #{i} under sections {g} expected {w}"), text
    if [(m, s) for m, s, *_ in items] != [(m, s) for m, s, *_ in want_items]:
        return ({"kind": "list-items"},
                f"LIST_ITEM nodes {[(m, s) for m, s, *_ in items]} expected "
                f"{[(m, s) for m, s, *_ in want_items]}"), text
    for (m, sid, secs, lists, lid), (_, _, wsecs, wlists) in zip(items,
                                                                 want_items):
        if secs != wsecs:
            return ({"kind": "item-section"},
                    f"item S{sid}x in sections {secs} expected {wsecs}"), text
        if tuple((b, b) for _, b in lists) != wlists or any(
                a != b for a, b in lists):
            return ({"kind": "item-nesting", "marker_len": len(m)},
                    f"item S{sid}x ({m}) nested in {lists} expected "
                    f"{wlists}"), text
    groups = ro.same_list_groups(outline)
    seen = {}
    for (m, sid, _, _, lid), g in zip(items, groups):
        if g in seen and seen[g] != lid:
            return ({"kind": "list-split"},
                    f"item S{sid}x should continue the list of an equal "
                    f"marker but is in a new LIST"), text
        if g not in seen and lid in seen.values():
            return ({"kind": "list-merged"},
                    f"item S{sid}x should start a new LIST"), text
        seen[g] = lid
    for sid, w in want_sent.items():
        g = sent.get(sid)
        if g is None:
            return ({"kind": "sentinel-lost"},
                    f"S{sid}x not found in the tree"), text
        gl = tuple((b, b) for _, b in g[1])
        if g[0] != w[0]:
            return ({"kind": "content-section"},
                    f"S{sid}x in sections {g[0]} expected {w[0]}"), text
        if gl != w[1]:
            return ({"kind": "content-list"},
                    f"S{sid}x in lists {g[1]} expected {w[1]}"), text
    return None, text


def nontrivial(outline):
    lv = [ln[1] for ln in outline if ln[0] == "h"]
    dec = any(b < a for a, b in zip(lv, lv[1:]))
    ml = {len(ln[1]) for ln in outline if ln[0] == "l"}
    return (len(lv) >= 2 and dec) or len(ml) >= 2


def classes(outline):
    c = []
    kinds = {ln[0] for ln in outline}
    if "hr" in kinds:
        c.append("hr")
    if "h" in kinds and "l" in kinds:
        c.append("headings+lists")
    for ln in outline:
        if ln[0] == "f":
            c.append("filler:" + ln[1])
    return sorted(set(c))


# ------------------------------------------------------------ enumeration


def enum_headings(maxlen):
    """All heading-level sequences up to maxlen; sentinels numbered."""
    for n in range(1, maxlen + 1):
        for seq in itertools.product(range(1, 7), repeat=n):
            yield seq


def outline_from_levels(seq, filler, hr_at):
    out, sid = [], 0
    for i, lv in enumerate(seq):
        out.append(["h", lv, sid])
        sid += 1
        if filler is not None:
            out.append(["f", filler, sid if ro.FILLERS[filler][2] else None])
            sid += 1
        if hr_at == i:
            out.append(["hr"])
            out.append(["f", "para", sid])
            sid += 1
    return out


def enum_markers(maxlen):
    for n in range(1, maxlen + 1):
        for seq in itertools.product(MARKERS, repeat=n):
            yield seq


def outline_from_markers(seq, heading, between):
    out, sid = [], 0
    if heading:
        out.append(["h", 2, sid])
        sid += 1
    for i, m in enumerate(seq):
        out.append(["l", m, sid, None])
        sid += 1
        if between is not None and i == 0 and len(seq) > 1:
            out.append(["f", between, sid if ro.FILLERS[between][2] else None])
            sid += 1
    return out


def random_outline():
    line = st.one_of(
        st.tuples(st.just("h"), st.integers(1, 6)),
        st.tuples(st.just("h"), st.integers(2, 4)),
        st.tuples(st.just("l"), st.sampled_from(MARKERS),
                  st.none() | st.sampled_from(INLINE_KINDS)),
        st.tuples(st.just("l"), st.sampled_from(MARKERS[:6]),
                  st.none() | st.sampled_from(INLINE_KINDS)),
        st.tuples(st.just("hr")),
        st.tuples(st.just("f"), st.sampled_from(FILLER_KINDS)),
    )

    def number(lines):
        out, sid = [], 0
        for ln in lines:
            if ln[0] == "h":
                out.append(["h", ln[1], sid])
                sid += 1
            elif ln[0] == "l":
                inl = None
                if ln[2] is not None:
                    inl = [ln[2], sid + 1]
                out.append(["l", ln[1], sid, inl])
                sid += 2
            elif ln[0] == "hr":
                out.append(["hr"])
            else:
                has = ro.FILLERS[ln[1]][2]
                out.append(["f", ln[1], sid if has else None])
                sid += 1
        return out

    return st.lists(line, min_size=1, max_size=22).map(number)


def shard(idx, nshards, seed, quick, n_random, known):
    env.setup()
    part = Part()
    ctx = env.new_ctx()
    buckets = {}

    def one(outline, origin):
        r, text = check_outline(ctx, outline)
        part.case(h(outline), nontrivial(outline),
                  classes=classes(outline) + ["gen:" + origin],
                  sample={"text": text[:300]})
        if r is not None:
            sig, what = r
            rep = {"outline": outline}
            for k in known:
                if sig_matches(k["signature"], sig):
                    if not part.excluded[k["id"]]:
                        part.violation(sig, what, rep)
                    part.excluded[k["id"]] += 1
                    return
            key = h(sig)
            if key not in buckets or len(outline) < len(buckets[key][2]["outline"]):
                buckets[key] = (sig, what, rep)

    n = 0
    hmax = 4
    for seq in enum_headings(hmax):
        n += 1
        if n % nshards != idx:
            continue
        one(outline_from_levels(seq, None, None), "levels")
        # every filler between every pair, and a rule after each position
        fills = FILLER_KINDS if (not quick or n % 5 == seed % 5) else []
        for f in fills:
            one(outline_from_levels(seq, f, None), "levels+filler")
        for hr_at in range(len(seq)):
            if not quick or (n + hr_at) % 3 == seed % 3:
                one(outline_from_levels(seq, "para", hr_at), "levels+hr")
    mmax = 3
    for seq in enum_markers(mmax):
        n += 1
        if n % nshards != idx:
            continue
        one(outline_from_markers(seq, False, None), "markers")
        if len(seq) == 2 or (not quick and n % 4 == 0):
            one(outline_from_markers(seq, True, None), "markers+heading")
            for b in ("comment", "blank", "para"):
                one(outline_from_markers(seq, False, b), "markers+filler")

    def body(o):
        one(o, "random")

    hyp.search(random_outline(), body, n_random, seed * 1000 + idx, shrink=False)
    try:
        ctx.close_db_conn()
    except Exception:
        pass
    for sig, what, rep in buckets.values():
        part.violation(sig, what, rep)
    return part.to_dict()


def run(run):
    quick = run.tier == "quick"
    procs = par.nprocs(run.tier)
    n_random = 400 if quick else 20000
    for d in par.map_shards(shard, [(i, procs, run.seed, quick, n_random,
                                     run.known) for i in range(procs)], procs):
        run.merge(d)
    # the bare level / marker sequences are enumerated completely in both
    # tiers; the filler and rule placements only in the thorough tier
    run.exhaustive = not quick
    run.extra["quick_tier_samples_fillers"] = quick
    run.rule = (
        "All heading-level sequences up to length 4"
        + " (alone, with every filler of a 14-entry balanced-markup catalogue "
        "after every heading, and with a horizontal rule after every "
        "position) and all */# marker sequences (depth <=4) up to "
        + "3 lines" + (" (fillers and rules between headings sampled 1/5 and "
                       "1/3 in the quick tier)" if quick else "")
        + ", with and without an enclosing heading / an intervening comment, "
        "blank line or paragraph; plus Hypothesis outlines up to 22 lines "
        "interleaving headings, list lines (with inline fillers), rules and "
        "fillers. Every line carries a unique sentinel word; oracle = "
        "R-outline: expected chain of enclosing sections and (list, item) "
        "prefixes per sentinel, one LEVEL node per heading, one LIST_ITEM per "
        "list line with the written marker, equal markers share one LIST, "
        "rules placed under the right section, tree well-formed. Non-trivial "
        "= >= 2 headings with a level decrease or >= 2 list lines of "
        "different marker length; distinct by hash of the outline."
    )
    run.assumptions = ["only * and # markers; headings written with matched "
                       "'=' runs; fillers are balanced markup"]
    run.trusted_base = ["refs/outline.py", "refs/tree.py"]


def replay(run, case):
    ctx = env.new_ctx()
    try:
        r, text = check_outline(ctx, case["outline"])
    finally:
        ctx.close_db_conn()
    run.case(h(case["outline"]), True, sample={"text": text[:300]})
    if r is not None:
        run.violation(r[0], r[1], case)
