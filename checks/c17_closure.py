"""C17 — template analysis marks exactly the closure of structure-affecting
templates, and terminates on every inclusion graph."""

import itertools

from hypothesis import strategies as st

from vlib import env, guard, hyp, par
from vlib.bucket import exc_bucket, exc_text
from vlib.run import Part, h, sig_matches

TNS = 10
PREFIX = "Template:"
BOUND_S = 20.0

# includes two pairs that differ only in the case of the first letter: both
# are stored and referenced in exactly their own spelling
NAME_POOL = ["A", "B", "C", "foo", "Foo bar", "Éa", "x y z", "日本", "ß-t",
             "D/doc", "q:r", "Z9", "Box", "box", "éa"]


# ------------------------------------------------------------ reference model
def closure(case):
    """R-closure.  case = {"nodes": [{"name", "uses": [...], "flag": bool,
    "redirect": name or None}]}.  Returns the set of marked titles."""
    nodes = case["nodes"]
    by_name = {n["name"]: n for n in nodes}
    S = {n["name"] for n in nodes if n["flag"]}
    changed = True
    while changed:
        changed = False
        for n in nodes:
            if n["name"] in S:
                continue
            if any(u in S and u in by_name for u in n["uses"]):
                S.add(n["name"])
                changed = True
    out = set(S)
    # redirects from a page to a marked template
    for n in nodes:
        if n["redirect"] is not None and n["redirect"] in S and \
                n["redirect"] in by_name:
            out.add(n["name"])
    # targets of marked redirect pages
    for n in nodes:
        if n["redirect"] is not None and n["name"] in S and \
                n["redirect"] in by_name:
            out.add(n["redirect"])
    return {PREFIX + x for x in out}


def closure_max(case):
    """Upper reading for graphs in which a redirect points at a redirect:
    "redirects from or to a marked template" applied until nothing changes
    (closure() applies it once, to the set marked through flags and
    inclusion).  The statement does not say which; both are accepted."""
    by_name = {n["name"]: n for n in case["nodes"]}
    out = {x[len(PREFIX):] for x in closure(case)}
    changed = True
    while changed:
        changed = False
        for n in case["nodes"]:
            r = n["redirect"]
            if r is None or r not in by_name:
                continue
            if r in out and n["name"] not in out:
                out.add(n["name"])
                changed = True
            if n["name"] in out and r not in out:
                out.add(r)
                changed = True
    return {PREFIX + x for x in out}


def has_double_redirect(case):
    by_name = {n["name"]: n for n in case["nodes"]}
    for n in case["nodes"]:
        t = by_name.get(n["redirect"]) if n["redirect"] is not None else None
        if t is not None and t["redirect"] is not None:
            return True
    return False


def domain_ok(case):
    """Redirect pages have no body, hence include nothing; no redirect to
    itself."""
    by_name = {n["name"]: n for n in case["nodes"]}
    if len(by_name) != len(case["nodes"]):
        return False
    for n in case["nodes"]:
        if n["redirect"] is not None:
            if n["uses"]:
                return False
            if n["redirect"] == n["name"]:
                return False
    return True


def features(case):
    nodes = case["nodes"]
    by = {n["name"]: n for n in nodes}
    f = set()
    edges = {(n["name"], u) for n in nodes for u in n["uses"] if u in by}
    if any(a == b for a, b in edges):
        f.add("self-loop")
    # cycle detection (length >= 2)
    adj = {}
    for a, b in edges:
        if a != b:
            adj.setdefault(a, set()).add(b)

    def reach(a):
        seen, st_ = set(), [a]
        while st_:
            x = st_.pop()
            for y in adj.get(x, ()):
                if y not in seen:
                    seen.add(y)
                    st_.append(y)
        return seen

    R = {n["name"]: reach(n["name"]) for n in nodes}
    if any(a in R[a] for a in R):
        f.add("cycle")
    # diamond: two distinct includers of one node that share an includer
    for a in R:
        kids = adj.get(a, set())
        for x, y in itertools.combinations(sorted(kids), 2):
            if (R[x] | {x}) & (R[y] | {y}):
                f.add("diamond")
    if any(n["redirect"] is not None for n in nodes):
        f.add("redirect")
    if any(n.get("premarked") and n["flag"] for n in nodes):
        f.add("premarked-flagged-template")
    flagged = {n["name"] for n in nodes if n["flag"]}
    if flagged and any(R[a] & flagged and a not in flagged for a in R):
        f.add("flag-with-unflagged-ancestor")
    if any(u not in by for n in nodes for u in n["uses"]):
        f.add("dangling-include")
    if any(not n["name"][:1].isupper() or " " in n["name"]
           or not n["name"].isascii() for n in nodes):
        f.add("unusual-name")
    names_l = [n["name"][:1].upper() + n["name"][1:] for n in nodes]
    if len(set(names_l)) < len(names_l):
        f.add("case-twin-names")
    return f


# ------------------------------------------------------------------ real run
def reset(ctx):
    ctx.db_conn.execute("DELETE FROM pages")
    ctx.db_conn.commit()
    ctx.get_page.cache_clear()


def real(ctx, case):
    """Returns (status, marked set | text)."""
    reset(ctx)
    table = {}
    for n in case["nodes"]:
        title = PREFIX + n["name"]
        # "premarked": the page already carries need_pre_expand when the
        # analysis starts (add_page's own option; a store analysed before).
        # Only flagged templates are premarked, so the least set of the
        # statement stays well defined.
        pre = bool(n.get("premarked")) and bool(n["flag"])
        if n["redirect"] is not None:
            ctx.add_page(title, TNS, None, redirect_to=PREFIX + n["redirect"],
                         need_pre_expand=pre)
        else:
            ctx.add_page(title, TNS, "body of " + n["name"],
                         need_pre_expand=pre)
        table[title] = (set(n["uses"]), bool(n["flag"]))
    # noise outside the template namespace (same names, never observed)
    for n in case["nodes"][:2]:
        ctx.add_page(n["name"], 0, "{{" + n["name"] + "}}")
    ctx.db_conn.commit()
    calls = []

    def classify(wtp, page):
        calls.append(page.title)
        used, flag = table[page.title]
        return set(used), flag

    status, val, el = guard.call(ctx.analyze_templates, BOUND_S, classify)
    if status == "timeout":
        return "timeout", f"analyze_templates did not return within {BOUND_S:.0f} s"
    if status == "exc":
        return "exc", val
    marked = {p.title for p in ctx.get_all_pages([TNS]) if p.need_pre_expand}
    other = [p.title for p in ctx.get_all_pages() if p.namespace_id != TNS
             and p.need_pre_expand]
    if sorted(calls) != sorted(table):
        return "classifier-calls", (calls, sorted(table))
    return "ok", (marked, other)


def check(ctx, case):
    want = closure(case)
    status, val = real(ctx, case)
    if status == "timeout":
        return ({"kind": "non-termination"}, val)
    if status == "exc":
        return ({"kind": "exception", **exc_bucket(val)}, exc_text(val))
    if status == "classifier-calls":
        return ({"kind": "classifier-not-called-once-per-template"},
                f"classifier calls {val[0]!r}, templates {val[1]!r}")
    marked, other = val
    if has_double_redirect(case):
        hi = closure_max(case)
        if want <= marked <= hi:
            return None
        want = want if not want <= marked else hi
    if marked != want:
        missing = sorted(want - marked)
        extra = sorted(marked - want)
        f = features(case)
        sig = {"kind": "missing" if missing else "extra",
               "redirect_involved": "redirect" in f,
               "cycle": "cycle" in f or "self-loop" in f}
        return (sig, f"marked {sorted(marked)!r}, closure {sorted(want)!r} "
                     f"(missing {missing!r}, extra {extra!r}) for "
                     f"{describe(case)}")
    return None


def describe(case):
    bits = []
    for n in case["nodes"]:
        s = n["name"]
        if n["redirect"] is not None:
            s += "=>" + n["redirect"]
        if n["uses"]:
            s += " uses " + ",".join(sorted(n["uses"]))
        if n["flag"]:
            s += " [flag, premarked]" if n.get("premarked") else " [flag]"
        bits.append(s)
    return "; ".join(bits)


# ----------------------------------------------------------------- generators
def exhaustive_cases():
    """All digraphs with self loops on <= 3 nodes x all flag sets x all
    placements of one extra redirect page (target, flagged or not, which
    nodes include it by name)."""
    for n in (1, 2, 3):
        names = ["A", "B", "C"][:n]
        pairs = [(a, b) for a in names for b in names]
        for mask in range(1 << len(pairs)):
            edges = [pairs[i] for i in range(len(pairs)) if mask >> i & 1]
            for flags in itertools.product((False, True), repeat=n):
                base = [{"name": a,
                         "uses": sorted(b for x, b in edges if x == a),
                         "flag": flags[i], "redirect": None}
                        for i, a in enumerate(names)]
                yield {"nodes": base}
                if any(flags):
                    # the same graph with every flagged template premarked
                    yield {"nodes": [dict(x, premarked=True) for x in base]}
                for tgt in names:
                    for rflag in (False, True):
                        for inc in range(1 << n):
                            nodes = [dict(x, uses=sorted(
                                set(x["uses"]) | ({"R"} if inc >> i & 1
                                                  else set())))
                                for i, x in enumerate(base)]
                            nodes.append({"name": "R", "uses": [],
                                          "flag": rflag, "redirect": tgt})
                            yield {"nodes": nodes}
                # a redirect page whose target is itself a redirect page
                # (to a template or to nothing), every flag placement
                for tgt in names[:1] + ["Missing"]:
                    for rflag, qflag in itertools.product((False, True),
                                                          repeat=2):
                        nodes = [dict(x) for x in base]
                        nodes.append({"name": "R", "uses": [], "flag": rflag,
                                      "redirect": "Q"})
                        nodes.append({"name": "Q", "uses": [], "flag": qflag,
                                      "redirect": tgt})
                        yield {"nodes": nodes}


def n_exhaustive():
    t = 0
    for n in (1, 2, 3):
        t += (1 << (n * n)) * ((1 << n) * (1 + n * 2 * (1 << n) + 8)
                               + ((1 << n) - 1))
    return t


@st.composite
def graph_case(draw):
    n = draw(st.integers(2, 8))
    names = draw(st.permutations(NAME_POOL))[:n]
    dens = draw(st.sampled_from([0.15, 0.3, 0.5]))
    nodes = []
    nredir = draw(st.integers(0, min(3, n - 1)))
    redirs = set(names[n - nredir:]) if nredir else set()
    targets = [x for x in names if x not in redirs]
    for a in names:
        if a in redirs:
            tgt = draw(st.sampled_from(
                targets + ["Missing"] + sorted(redirs - {a})[:1]))
            nodes.append({"name": a, "uses": [],
                          "flag": draw(st.integers(0, 9)) == 0,
                          "redirect": tgt})
        else:
            uses = [b for b in names + ["Nowhere"]
                    if draw(st.floats(0, 1)) < dens]
            nodes.append({"name": a, "uses": sorted(uses),
                          "flag": draw(st.integers(0, 3)) == 0,
                          "redirect": None})
    if draw(st.integers(0, 2)) == 0:
        for nd in nodes:
            if nd["flag"] and draw(st.booleans()):
                nd["premarked"] = True
    return {"nodes": nodes}


# --------------------------------------------------------------------- driver
def shard(idx, nshards, seed, stride, n_random, known):
    env.setup()
    part = Part()
    ctx = env.new_ctx()
    buckets = {}

    timeouts = [0]

    def one(case, origin):
        if timeouts[0] >= 2:
            # non-termination already established twice in this shard; every
            # further hanging case would cost the full bound
            part.excluded["skipped after repeated non-termination"] += 1
            return
        if not domain_ok(case):
            part.excluded["outside domain (redirect page with a body / to itself)"] += 1
            return
        f = features(case)
        nt = ("cycle" in f or "diamond" in f or "self-loop" in f) and \
            "flag-with-unflagged-ancestor" in f
        if has_double_redirect(case):
            f = set(f) | {"double-redirect"}
        part.case(h(case), nt, classes=["gen:" + origin] + sorted(f),
                  sample={"graph": describe(case)})
        v = check(ctx, case)
        if v is None:
            return
        sig, what = v
        if sig.get("kind") == "non-termination":
            timeouts[0] += 1
        rep = {"case": case}
        for k in known:
            if sig_matches(k["signature"], sig):
                if not part.excluded[k["id"]]:
                    part.violation(sig, what, rep)
                part.excluded[k["id"]] += 1
                return
        key = h(sig)
        size = sum(1 + len(n["uses"]) for n in case["nodes"])
        if key not in buckets or size < buckets[key][3]:
            buckets[key] = (sig, what, rep, size)

    for i, case in enumerate(exhaustive_cases()):
        if i % nshards == idx and (i // nshards) % stride == 0:
            one(case, "exhaustive<=3")
    hyp.search(graph_case(), lambda c: one(c, "random<=8"), n_random,
               seed * 1000 + idx, shrink=False)
    ctx.close_db_conn()
    for sig, what, rep, _ in buckets.values():
        part.violation(sig, what, rep)
    return part.to_dict()


def run(run):
    quick = run.tier == "quick"
    procs = par.nprocs(run.tier)
    stride = 4 if quick else 1
    n_random = 400 if quick else 20000
    for d in par.map_shards(shard, [(i, procs, run.seed, stride, n_random,
                                     run.known) for i in range(procs)], procs):
        run.merge(d)
    run.exhaustive = not quick
    run.extra["exhaustive_domain_size"] = n_exhaustive()
    run.rule = (
        "Inclusion graphs given to analyze_templates through a table-lookup "
        "classifier: every digraph with self loops on <= 3 templates x every "
        "flag set x every placement of one extra redirect page (3 targets x "
        "flagged or not x every subset of templates including it by name) "
        f"({n_exhaustive()} cases; quick tier takes every {stride}th), plus "
        "Hypothesis graphs on 2-8 templates with up to 3 redirect pages, "
        "dangling includes and redirect targets, names with blanks / Unicode "
        "/ lower-case initials and case twins; in a share of the cases flagged "
        "templates already carry need_pre_expand when the analysis starts. "
        "Oracle: the set of templates with "
        "need_pre_expand afterwards equals the least fixed point of the "
        "flags under 'includes a marked template', plus redirect pages whose "
        "target is in it, plus targets of marked redirect pages; the "
        "classifier is called exactly once per template page; the call "
        f"returns within {BOUND_S:.0f} s (SIGALRM watchdog). Non-trivial = "
        "graph has a cycle, self loop or diamond and a flagged node with an "
        "unflagged ancestor."
    )
    run.assumptions = [
        "references use the stored spelling; redirect pages include nothing; "
        "where a redirect points at a redirect the statement leaves open "
        "whether the redirect rule is applied once or until nothing changes: "
        "the marked set must lie between those two readings (equal to the "
        "single reading everywhere else)",
        "templates included only through a redirect page are not part of the "
        "closure (redirect marks are added after the fixed point, as the "
        "statement orders them)",
    ]
    run.trusted_base = ["closure() in checks/c17_closure.py", "vlib/guard.py"]


def replay(run, case):
    env.setup()
    ctx = env.new_ctx()
    try:
        c = case["case"]
        run.case(h(c), True, sample={"graph": describe(c)})
        v = check(ctx, c)
        if v is not None:
            run.violation(v[0], v[1], case)
    finally:
        ctx.close_db_conn()
