"""C04 — template expansion equals the reference transclusion semantics."""

import re

from gens import exp
from refs import transclude as rt
from vlib import env, hyp, par
from vlib.bucket import exc_bucket, exc_text
from vlib.run import Part, h, sig_matches


def classify(it, lib, page_text):
    st = it.stats
    cls = []
    if st["max_nest"] >= 2:
        cls.append("nested>=2")
    if st["named_blank"]:
        cls.append("named-blank")
    if st["defaults"]:
        cls.append("default-evaluated")
    if st["missing"]:
        cls.append("missing-template")
    if st["auto_newline"]:
        cls.append("auto-newline")
    if st["dup_keys"]:
        cls.append("duplicate-key")
    if st["pfn"]:
        cls.append("pfn")
    if st["literal_params"]:
        cls.append("literal-param")
    used = {n for n, _ in it.call_log}
    if any(lib[n]["wrapper"] != "plain" for n in used if n in lib):
        cls.append("inclusion-control")
    return cls


def run_case(lib, page):
    """Returns (status, detail): status in ok / ood / viol."""
    text = exp.render(page)
    try:
        want, it = rt.evaluate(page, lib)
    except rt.OutOfDomain as e:
        return "ood", str(e), None, None
    except rt.Budget as e:
        return "ood", "budget " + str(e), None, None
    ctx = env.new_ctx()
    try:
        exp.install(ctx, lib)
        ctx.start_page("Test page")
        try:
            got = ctx.expand(text)
        except Exception as e:
            return "viol", ({"kind": "exception", **exc_bucket(e)},
                            exc_text(e)), it, text
    finally:
        ctx.close_db_conn()
    if got != want:
        sig = {"kind": "mismatch", "class": diff_class(got, want)}
        return "viol", (sig, f"expand={got!r} reference={want!r}"[:400]), it, text
    return "ok", None, it, text


def diff_class(got, want):
    if got.strip() == want.strip():
        return "outer-whitespace"
    if re.sub(r"\s+", "", got) == re.sub(r"\s+", "", want):
        return "whitespace"
    if "error" in got:
        return "error-element"
    return "content"


def shard(idx, seed, n, known):
    env.setup()
    part = Part()

    def body(case):
        lib, page = case
        status, detail, it, text = run_case(lib, page)
        if status == "ood":
            part.excluded["ood:" + detail.split(" ")[0]] += 1
            part.evaluations += 1
            return
        cls = classify(it, lib, text)
        nontriv = any(c in cls for c in ("nested>=2", "named-blank",
                                         "default-evaluated",
                                         "inclusion-control"))
        part.case(h([lib, page]), nontriv, classes=cls,
                  sample={"page": text[:300],
                          "templates": {k: exp.wrap_body(v["body"], v["wrapper"],
                                                         v["junk"])[:200]
                                        for k, v in lib.items()}})
        if status == "viol":
            sig, what = detail
            rep = {"lib": lib, "page": page, "text": text}
            for k in known:
                if sig_matches(k["signature"], sig):
                    if not part.excluded[k["id"]]:
                        part.violation(sig, what, rep)
                    part.excluded[k["id"]] += 1
                    return
            raise hyp.Found(sig, what, rep)

    f = hyp.search(exp.case_strategy(depth=4, n_max=5, dag=True), body, n,
                   seed * 1000 + idx, shrink_s=40)
    if f is not None:
        part.violation(f.signature, f.what, f.replay)
    return part.to_dict()


def switch_cases():
    """Every #switch over keys a/b/c with up to 4 cases (bare fall-through
    keys and key=result pairs in every order) x every tail x every value."""
    import itertools

    items = [["bare", k] for k in "abc"] + [["case", k, None] for k in "abc"]
    tails = [None, ["default", [["T", "D"]]], ["last", [["T", "L"]]]]
    for n in range(5):
        for combo in itertools.product(items, repeat=n):
            cases = []
            for i, c in enumerate(combo):
                cases.append(c if c[0] == "bare"
                             else ["case", c[1], [["T", f"r{i}"]]])
            for tail in tails:
                for val in ("a", "b", "z", ""):
                    yield cases, tail, val


def switch_shard(idx, nshards, quick, known):
    env.setup()
    part = Part()
    ctx = env.new_ctx()
    ctx.add_page("Template:sw1", 10, "{{{1}}}")
    ctx.start_page("Test page")
    buckets = {}
    try:
        for j, (cases, tail, val) in enumerate(switch_cases()):
            if j % nshards != idx:
                continue
            forms = [[["T", val]]]
            if (j // nshards) % (5 if quick else 1) == 0:
                forms.append([["T", " " + val + "\n"]])
                forms.append([["P", "1", [["T", val]]]])
            for v in forms:
                page = [["SW", v, cases, tail]]
                text = exp.render(page)
                want, it = rt.evaluate(page, {})
                bare_run = 0
                fall = False
                for c in cases:
                    bare_run = bare_run + 1 if c[0] == "bare" else 0
                    fall = fall or bare_run >= 2
                part.case(h(text), fall, classes=["switch-enumerated"]
                          + (["switch-fallthrough-group"] if fall else []),
                          sample={"page": text})
                try:
                    got = ctx.expand(text)
                except Exception as e:
                    sig = {"kind": "exception", **exc_bucket(e)}
                    what = exc_text(e)
                else:
                    if got == want:
                        continue
                    sig = {"kind": "mismatch", "class": "switch"}
                    what = f"expand({text!r})={got!r} reference={want!r}"
                key = str(sorted(sig.items()))
                if key not in buckets or len(text) < buckets[key][3]:
                    buckets[key] = (sig, what, {"lib": {}, "page": page,
                                                "text": text}, len(text))
    finally:
        ctx.close_db_conn()
    for sig, what, rep, _ in buckets.values():
        if any(sig_matches(k["signature"], sig) for k in known):
            part.excluded["known"] += 1
            continue
        part.violation(sig, what, rep)
    return part.to_dict()


def run(run):
    procs = par.nprocs(run.tier)
    if run.tier == "quick":
        shards, n = procs, 500
    else:
        shards, n = 16, 30000
    for d in par.map_shards(shard, [(i, run.seed, n, run.known)
                                    for i in range(shards)], procs):
        run.merge(d)
    for d in par.map_shards(switch_shard,
                            [(i, procs, run.tier == "quick", run.known)
                             for i in range(procs)], procs):
        run.merge(d)
    run.rule = (
        "Exhaustively, every #switch over three keys with up to four cases "
        "(bare fall-through keys and key=result pairs in every order) x "
        "{no tail, #default, trailing bare default} x matching / unmatched / "
        "empty values (plain, blank-padded, through a parameter default); "
        "Hypothesis-generated (template library <=5 templates with DAG call "
        "graph and inclusion-control wrappers, page) pairs from the expansion "
        "AST grammar (depth <=4); oracle: Wtp.expand(render(page)) == "
        "R-transclude(page, library) by exact string equality, templates "
        "stored through the real add_page. Non-trivial = evaluation nests >=2 "
        "calls, or trims a blank-padded named argument, or evaluates a "
        "default, or uses a template whose stored text has an effective "
        "inclusion-control wrapper; distinct by hash of (library, page)."
    )
    run.assumptions = [
        "positional values never end in a newline and contain no '=' "
        "(documented intentional deviations; cases leaving the domain are "
        "counted under excluded_by_construction)",
        "template names in stored spelling; no subst:, no numeric #ifeq/#switch "
        "operands that are numerically equal but textually different",
    ]
    run.trusted_base = ["refs/transclude.py", "gens/exp.py (renderer)"]


def replay(run, case):
    status, detail, it, text = run_case(case["lib"], case["page"])
    run.case(h([case["lib"], case["page"]]), True, sample={"page": text})
    if status == "viol":
        run.violation(detail[0], detail[1], case)
