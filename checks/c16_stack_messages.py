"""C16 — the expansion path and message lists stay consistent."""

from hypothesis import strategies as st

from fixtures import lua_modules
from gens import exp
from vlib import env, hyp, par
from vlib.bucket import exc_bucket, exc_text
from vlib.run import Part, h, sig_matches

LIB = {
    "ta": "A{{{1|}}}{{tb|x}}",
    "tb": "B{{{1}}}",
    "Tc": "{{#if:{{{1|}}}|{{tb|{{{1}}}}}|none}}",
    "t d": "D[[l|{{{k|v}}}]]",
    "te": "* item {{{1|e}}}",
    "tloop": "{{tloop}}",
    "tmut1": "x{{tmut2}}",
    "tmut2": "y{{tmut1}}",
    "tinv": "{{#invoke:echo|f|{{{1|}}}}}",
    "tinvp": "{{#invoke:echo|parentarg}}",
    "terr": "{{#invoke:bad|err}}",
    "tbadpfn": "{{#expr:1+}}{{#titleparts:a|x}}{{#time:Y|garbage}}",
    "tpp": "{{#invoke:echo|pp|{{{1|}}}}}",
    # expansions that come out empty (hooks see / skip the empty string)
    "tempty": "",
    "targ": "{{{1|}}}",
    "tcond": "{{#if:{{{1|}}}|x}}",
    "tnoinc": "<noinclude>doc only</noinclude>",
    # expansions used where a NAME is expected (argument name, template name)
    "tone": "1",
    "tkey": "k",
    "tname": "tb",
}
CALLABLE = ["ta", "tb", "Tc", "t d", "te", "tloop", "tmut1", "tinv", "tinvp",
            "terr", "tbadpfn", "tpp", "tempty", "targ", "tcond", "tnoinc"]
KEYS = {"msg", "trace", "title", "section", "subsection", "called_from", "path"}
REPS = [1, 1, 2, 3, 7, 40, 120, 300]

INVOKES = [
    ("echo", "f"), ("echo", "pp"), ("echo", "et"), ("echo", "cpf"),
    ("echo", "full"), ("bad", "err"), ("bad", "nilidx"), ("bad", "nofn"),
    ("nomod", "f"), ("bad", "ret_table"), ("bad", "ret_nil"), ("bad", "pperr"),
    ("bad", "pploop"), ("bad", "deep"), ("bad", "errobj"),
] + [("bad", f) for f in lua_modules.MISUSE_FNS]


def invoke_strategy(sub):
    arg = st.one_of(
        sub.map(lambda s: ["pos", s]),
        st.tuples(st.sampled_from(["k", "title", "1"]), sub).map(
            lambda t: ["named", t[0], t[1], ["", "", "", ""]]),
    )
    return st.tuples(st.sampled_from(INVOKES), st.lists(arg, max_size=3)).map(
        lambda t: ["INV", t[0][0], t[0][1], t[1]]
    )


OPTS = st.fixed_dictionaries({
    "api": st.sampled_from(["expand", "expand", "parse", "parse_expand_all"]),
    "pre_expand": st.booleans(),
    "expand_parserfns": st.booleans(),
    "expand_invoke": st.booleans(),
    "template_fn": st.sampled_from([None, None, "none", "marker"]),
    "post_template_fn": st.sampled_from([None, None, "none", "marker"]),
    "to_expand": st.sampled_from([None, ["tb"], ["ta", "tinv"]]),
    "reps": st.sampled_from(REPS),
    "section": st.sampled_from([None, "English", "Noun x"]),
    "subsection": st.sampled_from([None, "Sub"]),
    "title": st.sampled_from(["Test", "Talk:Foo/bar", "kissa"]),
    "timeout_case": st.just(False),
    "stale": st.integers(0, 31),
})


def make_ctx():
    ctx = env.new_ctx()
    for name, body in LIB.items():
        ctx.add_page("Template:" + name, 10, body,
                     need_pre_expand=name in ("te", "tinv"))
    lua_modules.install(ctx)
    ctx.db_conn.commit()
    return ctx


def hooks(opts):
    def tfn(name, args):
        if opts["template_fn"] == "marker" and name in ("tb", "te"):
            return "[TF:" + name + "]"
        return None

    def pfn(name, args, expanded):
        if opts["post_template_fn"] == "marker" and name in ("ta", "Tc"):
            return "[PF:" + name + "]"
        return None

    return (tfn if opts["template_fn"] else None,
            pfn if opts["post_template_fn"] else None)


def call_once(ctx, text, opts):
    tfn, pfn = hooks(opts)
    if opts["api"] == "expand":
        kw = dict(pre_expand=opts["pre_expand"], template_fn=tfn,
                  post_template_fn=pfn,
                  expand_parserfns=opts["expand_parserfns"],
                  expand_invoke=opts["expand_invoke"])
        if opts["to_expand"] is not None:
            kw["templates_to_expand"] = set(opts["to_expand"])
        if opts.get("timeout_case"):
            kw["timeout"] = 1
        return ctx.expand(text, **kw)
    if opts["api"] == "parse":
        kw = dict(pre_expand=opts["pre_expand"], template_fn=tfn,
                  post_template_fn=pfn)
        if opts["to_expand"] is not None:
            kw["additional_expand"] = set(opts["to_expand"])
        ctx.parse(text, **kw)
        return ""
    ctx.parse(text, expand_all=True, template_fn=tfn, post_template_fn=pfn)
    return ""


def check_case(ctx, text, opts):
    """Returns None or (signature, what)."""
    title = opts["title"]
    # leave something in every list (public recorders), under a stale
    # subsection, before the page is started
    ctx.start_subsection("stale-sub")
    # which recorders were used on the previous page: every subset must be
    # cleared by start_page, not only "all five" (stale = bit mask)
    stale = opts.get("stale", 31)
    ctx.start_page("Previous page")
    ctx.start_subsection("stale-sub")
    for bit, rec in enumerate((ctx.error, ctx.warning, ctx.debug, ctx.note,
                               ctx.wiki_notice)):
        if stale >> bit & 1:
            rec("stale-%d" % bit)
    ctx.start_page(title)
    for name in ("errors", "warnings", "debugs", "notes", "wiki_notices"):
        if getattr(ctx, name) != []:
            return ({"kind": "not-cleared", "list": name},
                    f"{name} not empty after start_page")
    tr = ctx.to_return()
    if set(tr) != {"errors", "warnings", "debugs", "notes", "wiki_notices"} \
            or any(v != [] for v in tr.values()):
        return ({"kind": "to-return"}, f"to_return() after start_page: {tr}")
    if ctx.expand_stack != [title]:
        return ({"kind": "stack-after-start"}, repr(ctx.expand_stack))
    if ctx.section is not None or ctx.subsection is not None:
        return ({"kind": "section-after-start"},
                f"{ctx.section!r}/{ctx.subsection!r} after start_page")
    # start_section clears any current subsection
    ctx.start_subsection("old-sub")
    ctx.start_section(opts["section"])
    ctx.note("probe")
    m = ctx.notes[-1]
    if (m["subsection"] or "") != "" or (m["section"] or "") != (
            opts["section"] or "") or m["title"] != title:
        return ({"kind": "message-section", "list": "notes"},
                f"after start_section: {m['section']!r}/{m['subsection']!r}")
    ctx.start_subsection(opts["subsection"])
    for rec, lst in ((ctx.error, "errors"), (ctx.warning, "warnings"),
                     (ctx.debug, "debugs"), (ctx.note, "notes"),
                     (ctx.wiki_notice, "wiki_notices")):
        n0 = len(getattr(ctx, lst))
        rec("probe-" + lst)
        if len(getattr(ctx, lst)) != n0 + 1:
            return ({"kind": "recorder", "list": lst}, "message not recorded")
    before = list(ctx.expand_stack)
    first_new = {n: len(getattr(ctx, n)) - 1 for n in
                 ("errors", "warnings", "debugs", "notes", "wiki_notices")}
    for i in range(opts["reps"]):
        try:
            out = call_once(ctx, text, opts)
        except Exception as e:
            # raising is C05's subject; here only calls that return count.
            # The stack must still be what it was for the NEXT call.
            ctx.expand_stack = list(before)
            return ("skip", exc_text(e))
        if ctx.expand_stack != before:
            return ({"kind": "stack-changed", "api": opts["api"],
                     "delta": len(ctx.expand_stack) - len(before),
                     "top": (ctx.expand_stack[-1] if ctx.expand_stack else "")
                     .split(":")[0][:20]},
                    f"expand_stack after call {i + 1}: "
                    f"{ctx.expand_stack[:6]}... (len {len(ctx.expand_stack)})"
                    f", before: {before}")
        if "too deep recursion" in out:
            return ({"kind": "too-deep-on-flat-page", "api": opts["api"]},
                    f"repetition {i + 1}: output mentions too deep recursion")
    sec = opts["section"] or ""
    sub = opts["subsection"] or ""
    for name in ("errors", "warnings", "debugs", "notes", "wiki_notices"):
        for mi, m in enumerate(getattr(ctx, name)):
            if not isinstance(m, dict) or not KEYS <= set(m):
                return ({"kind": "message-keys", "list": name}, repr(m)[:200])
            if "too deep recursion" in m["msg"]:
                return ({"kind": "too-deep-on-flat-page", "api": opts["api"]},
                        f"message in {name}: {m['msg'][:80]}")
            if m["title"] != title:
                return ({"kind": "message-title", "list": name},
                        f"title {m['title']!r} != {title!r}")
            if mi >= first_new[name] and (
                    (m["section"] or "") != sec
                    or (m["subsection"] or "") != sub):
                return ({"kind": "message-section", "list": name},
                        f"section {m['section']!r}/{m['subsection']!r} != "
                        f"{sec!r}/{sub!r}")
            if not isinstance(m["path"], tuple) or not all(
                    isinstance(x, str) for x in m["path"]):
                return ({"kind": "message-path", "list": name},
                        repr(m["path"])[:120])
            if not isinstance(m["msg"], str) or not isinstance(m["trace"], str):
                return ({"kind": "message-types", "list": name}, repr(m)[:120])
    tr = ctx.to_return()
    for name in ("errors", "warnings", "debugs", "notes", "wiki_notices"):
        if tr[name] != getattr(ctx, name):
            return ({"kind": "to-return"}, f"to_return()[{name}] differs")
    return None


FIXED = [
    "{{#invoke:echo|f|x}}" * 3,
    "{{#invoke|echo|f}}{{#invoke:echo|f}}",
    "{{tinv|a}}{{tinv|b}}{{terr}}",
    "{{tloop}}{{tmut1}}",
    "{{#invoke:bad|err}}{{#invoke:nomod|f}}{{#invoke:bad|nofn}}",
    "{{tbadpfn}}{{#expr:}}{{#if:}}",
    "{{#invoke:bad|pploop}}{{#invoke:bad|pperr}}",
    "{{nope}}{{ta|{{tb|{{Tc|z}}}}}}",
    "[[a|{{tb|x}}]] [http://x.y {{tb|z}}] {{{p|{{tb|d}}}}}",
    "{{#invoke:echo|pp|{{((}}tloop{{))}}}}",
    "a{{tempty}}b{{targ}}{{tcond}}{{tnoinc}}{{targ|v}}",
    # computed argument names (to a number, to a word, half computed) and
    # computed template / parser-function names
    "{{tb|{{tone}}=v}}{{tb|{{#expr:1+1}}=w}}{{tb|{{{n|3}}}=x}}",
    "{{tb|{{tkey}}=v}}{{tb|a{{tone}}=v}}{{tb|{{tone}}{{tone}}=v|{{tempty}}=e}}",
    "{{ {{tname}} |x}}{{ {{tkey}} |x}}{{ {{tempty}} |x}}{{#{{tkey}}:x}}",
    "{{tb|{{tone}}={{tb|{{tone}}=in}}}}{{#if:x|{{tb|{{tone}}=p}}}}",
]


def classes_of(text, opts):
    cls = ["api:" + opts["api"], "reps:%d" % opts["reps"]]
    if not opts["expand_invoke"]:
        cls.append("invoke-off")
    if not opts["expand_parserfns"]:
        cls.append("pfn-off")
    if opts["pre_expand"]:
        cls.append("pre-expand")
    if opts["template_fn"] or opts["post_template_fn"]:
        cls.append("hooks")
    if "#invoke" in text or "tinv" in text or "terr" in text or "tpp" in text:
        cls.append("lua")
    if "tloop" in text or "tmut" in text:
        cls.append("loop")
    if "bad|" in text or "nomod" in text or "terr" in text:
        cls.append("lua-error")
    return cls


def is_nontrivial(cls, opts):
    err_path = any(c in cls for c in ("invoke-off", "pfn-off", "loop",
                                      "lua-error"))
    return err_path and opts["reps"] >= 100


def shard(idx, nshards, seed, n, known, quick):
    env.setup()
    part = Part()
    ctx = make_ctx()
    buckets = {}

    def one(text, opts, origin):
        r = check_case(ctx, text, opts)
        cls = classes_of(text, opts) + ["gen:" + origin]
        if r is not None and r[0] == "skip":
            part.excluded["raised (C05 domain)"] += 1
            part.evaluations += 1
            return
        part.case(h([text, opts]), is_nontrivial(cls, opts), classes=cls,
                  sample={"text": text[:200], "opts": opts})
        if r is not None:
            sig, what = r
            rep = {"text": text, "opts": opts}
            for k in known:
                if sig_matches(k["signature"], sig):
                    if not part.excluded[k["id"]]:
                        part.violation(sig, what, rep)
                    part.excluded[k["id"]] += 1
                    return
            key = h(sig)
            if key not in buckets or len(text) < len(buckets[key][2]["text"]):
                buckets[key] = (sig, what, rep)

    # fixed pages x a grid of option combinations
    base = dict(api="expand", pre_expand=False, expand_parserfns=True,
                expand_invoke=True, template_fn=None, post_template_fn=None,
                to_expand=None, reps=120, section="English", subsection=None,
                title="Test", timeout_case=False)
    grid = []
    for api in ("expand", "parse", "parse_expand_all"):
        for ei in (True, False):
            for ep in (True, False):
                for pe in (True, False):
                    for hk in (None, "none"):
                        grid.append(dict(base, api=api, expand_invoke=ei,
                                         expand_parserfns=ep, pre_expand=pe,
                                         template_fn=hk, post_template_fn=hk))
    work = [(t, o) for t in FIXED for o in grid]
    if quick:
        work = work[seed % 3::3]
    for i, (t, o) in enumerate(work):
        if i % nshards == idx:
            one(t, o, "fixed")
    # every subset of the five recorders used on the previous page (twice in
    # a row: the second start_page sees what the first page left)
    for stale in range(32):
        if stale % nshards == idx:
            for text in ("plain", "{{tb|x}}{{nope}}"):
                one(text, dict(base, reps=1, stale=stale), "stale-subsets")
                one(text, dict(base, reps=1, stale=stale, api="parse"),
                    "stale-subsets")
    # every frame-API misuse (raw / caught by the module / caught and followed
    # by a good callback), 120 flat repetitions on one page
    for i, f in enumerate(lua_modules.MISUSE_FNS):
        if i % nshards == idx:
            one("{{#invoke:bad|" + f + "}}", dict(base, reps=120), "misuse")
            if not quick or i % 3 == seed % 3:
                one("a{{tb|{{#invoke:bad|" + f + "}}}}",
                    dict(base, api="parse_expand_all", reps=40), "misuse")
    if idx == 0:
        # one timing-out invocation (costs >= 1 s per repetition)
        one("{{#invoke:bad|loop}}a{{#invoke:echo|f|x}}",
            dict(base, reps=2, timeout_case=True), "timeout")

    page = exp.seq_strategy(CALLABLE, 3, False, invoke_strategy, max_items=4)

    def body(case):
        seq, opts = case
        one(exp.render(seq), opts, "random")

    hyp.search(st.tuples(page, OPTS), body, n, seed * 1000 + idx, shrink=False)
    try:
        ctx.close_db_conn()
    except Exception:
        pass
    for sig, what, rep in buckets.values():
        part.violation(sig, what, rep)
    return part.to_dict()


def run(run):
    quick = run.tier == "quick"
    procs = par.nprocs(run.tier)
    n = 60 if quick else 2500
    for d in par.map_shards(shard, [(i, procs, run.seed, n, run.known, quick)
                                    for i in range(procs)], procs):
        run.merge(d)
    run.rule = (
        "Pages from the expansion grammar (template calls into a fixed library "
        "with loops, Lua-invoking, erroring and bad-parser-function templates; "
        "#invoke of benign / erroring / missing / preprocess-calling modules) "
        "x option combinations (expand / parse / parse expand_all, "
        "expand_parserfns, expand_invoke, pre_expand, templates_to_expand, "
        "hooks) x sections, each repeated 1..300 times on one page without "
        "start_page; plus a fixed page list over the full boolean grid. "
        "Oracle after every returning call: expand_stack equals its value "
        "before the call, flat pages never mention too deep recursion, every "
        "message has the documented keys with current title / section / "
        "subsection and a tuple-of-str path, lists are empty after start_page "
        "and to_return() mirrors them. Non-trivial = a call that takes an "
        "early-return or error path (options off, loop, Lua error) repeated "
        ">= 100 times; distinct by hash of (text, options)."
    )
    run.trusted_base = ["fixtures/lua/* stand-in Scribunto library files"]
    run.assumptions = ["calls that raise are C05's subject and are skipped "
                       "here (counted)"]


def replay(run, case):
    ctx = make_ctx()
    try:
        r = check_case(ctx, case["text"], case["opts"])
    finally:
        try:
            ctx.close_db_conn()
        except Exception:
            pass
    run.case(h([case["text"], case["opts"]]), True,
             sample={"text": case["text"][:200], "opts": case["opts"]})
    if r is not None and r[0] != "skip":
        run.violation(r[0], r[1], case)
