"""C12 — dump ingestion stores exactly the selected pages, byte for byte."""

import bz2
import json
import collections
import os
import shutil
import tempfile
from xml.sax.saxutils import escape, quoteattr

from hypothesis import strategies as st

from vlib import env, hyp, par
from vlib.bucket import exc_bucket, exc_text
from vlib.run import Part, h, sig_matches

MODELS_KEPT = ("wikitext", "Scribunto", "json")
MODELS_ALL = ["wikitext", "wikitext", "wikitext", "Scribunto", "json", "css",
              "javascript", "sanitized-css", "unknown-model"]
DEFAULTS = {"!": "|", "=": "=", "((": "&lbrace;&lbrace;",
            "))": "&rbrace;&rbrace;"}

NAMES = ["Foo", "foo", "Foo bar", "A:b", "a/b", "X/y/z", "Éa", "日本語",
         "שלום", "Q&A", "a<b", 'say "hi"', "it's", "x  y", "T/documentation",
         "T/documentations", "T/documentation/sub", "T/testcases",
         "T/testcases2", "T testcases", "Ttestcases", "U/doc", "!", "=",
         "((", "))", "𐍈", "a_b", "Ünï", "1", "-", "T/Documentation"]
BODY_BITS = ["text", " ", "  ", "\n", "\n\n", "\t", "&", "<", ">", '"', "'",
             "]]>", "<![CDATA[", "&amp;", "&lt;", "{{t|a}}", "[[L]]", "é",
             "日本", "𐍈\U0001F600", "\r", "<b>x</b>", "== h ==", "* li",
             "<!-- c -->", "</text>", "<page>", " ", " ", "a=b",
             "<nowiki>n</nowiki>", "|}", "\x7f"]
WRAPPERS = ["plain", "noinclude-after", "noinclude-before", "includeonly",
            "onlyinclude", "comment", "noinclude-unclosed"]


def wrap(core, wrapper, junk="DOC"):
    if wrapper == "plain":
        return core
    if wrapper == "noinclude-after":
        return core + "<noinclude>" + junk + "</noinclude>"
    if wrapper == "noinclude-before":
        return "<noinclude>" + junk + "\n</noinclude>" + core
    if wrapper == "includeonly":
        return "<includeonly>" + core + "</includeonly>"
    if wrapper == "onlyinclude":
        return junk + "<onlyinclude>" + core + "</onlyinclude>" + junk
    if wrapper == "comment":
        return core + "<!-- " + junk + " -->"
    if wrapper == "noinclude-unclosed":
        return core + "<noinclude>" + junk
    raise ValueError(wrapper)


def ns_table(lang):
    d = env.REPO_SRC / "wikitextprocessor" / "data" / lang / "namespaces.json"
    data = json.loads(d.read_text())
    return {v["id"]: v["name"] for v in data.values()}


def xml_text(s):
    # a literal CR would be normalised by every XML parser; real dumps carry
    # it as a character reference
    return escape(s).replace("\r", "&#13;")


def write_dump(pages, path, xmlns=True, siteinfo=True, ns_names=None):
    out = []
    if xmlns:
        out.append('<mediawiki xmlns="http://www.mediawiki.org/xml/export-0.10/" '
                   'xmlns:xsi="http://www.w3.org/2001/XMLSchema-instance" '
                   'version="0.10" xml:lang="en">\n')
    else:
        out.append("<mediawiki>\n")
    if siteinfo:
        out.append("  <siteinfo>\n    <sitename>Test</sitename>\n"
                   "    <namespaces>\n")
        for i, nm in sorted((ns_names or {}).items()):
            out.append(f'      <namespace key="{i}" case="first-letter">'
                       f"{escape(nm)}</namespace>\n")
        out.append("    </namespaces>\n  </siteinfo>\n")
    for n, p in enumerate(pages):
        out.append("  <page>\n")
        out.append(f"    <title>{xml_text(p['title'])}</title>\n")
        out.append(f"    <ns>{p['ns']}</ns>\n    <id>{n + 1}</id>\n")
        if p["redirect"] is not None:
            out.append(f"    <redirect title={quoteattr(p['redirect'])} />\n")
        out.append("    <revision>\n      <id>%d</id>\n" % (1000 + n))
        out.append("      <contributor><username>U</username><id>1</id>"
                   "</contributor>\n")
        if p.get("comment") is not None:
            out.append(f"      <comment>{xml_text(p['comment'])}</comment>\n")
        out.append(f"      <model>{escape(p['model'])}</model>\n")
        out.append("      <format>text/x-wiki</format>\n")
        if p["text"] is None:
            pass  # no <text> element at all
        elif p["text"] == "" and p.get("selfclosed"):
            out.append('      <text bytes="0" />\n')
        else:
            out.append('      <text bytes="%d" xml:space="preserve">%s</text>\n'
                       % (len(p["text"].encode("utf-8", "surrogatepass")),
                          xml_text(p["text"])))
        out.append("      <sha1>x</sha1>\n    </revision>\n  </page>\n")
    out.append("</mediawiki>\n")
    with bz2.open(path, "wb") as f:
        f.write("".join(out).encode("utf-8"))


def expected_map(pages, selected, ns_names):
    """R-dump: the statement's rules."""
    tprefix = ns_names[10] + ":"
    m = {}
    for p in pages:
        if p["ns"] not in selected:
            continue
        t = p["title"]
        if t.endswith("/documentation") or "/testcases" in t:
            continue
        if p["redirect"] is not None:
            m[(t, p["ns"])] = (None, p["redirect"], p["model"])
            continue
        if p["model"] not in MODELS_KEPT:
            continue
        body = p["text"] if p["text"] is not None else ""
        if p["ns"] == 10:
            body = p["core"] if p["text"] is not None else ""
        m[(t, p["ns"])] = (body, None, p["model"])
    return m


def optional_keys(pages, selected):
    """Redirect pages whose content model is one of the excluded ones: the
    statement excludes pages by content model and separately says redirects
    keep their target; it does not say which rule wins.  Such a page may be
    stored (as a redirect row with its target and model) or be left out."""
    out = set()
    for p in pages:
        if p["ns"] in selected and p["redirect"] is not None and \
                p["model"] not in MODELS_KEPT:
            out.add((p["title"], p["ns"]))
    return out


def with_defaults(m, ns_names):
    m = dict(m)
    tp = ns_names[10] + ":"
    for k, v in DEFAULTS.items():
        if (tp + k, 10) not in m:
            m[(tp + k, 10)] = (v, None, "wikitext")
    return m


@st.composite
def dump_case(draw, lang="en"):
    ns_names = ns_table(lang)
    ids = sorted(ns_names)
    common = [i for i in (0, 10, 828, 4, 14, 110, 1, 11) if i in ns_names]
    n = draw(st.integers(0, 25))
    pages = []
    for _ in range(n):
        ns = draw(st.one_of(st.sampled_from(common), st.sampled_from(common),
                            st.sampled_from(ids),
                            st.sampled_from([9999, 3000])))
        name = draw(st.sampled_from(NAMES))
        if ns == 0 and name.startswith("Main:"):
            name = "M"
        prefix = (ns_names.get(ns, "Ns%d" % ns) + ":") if ns != 0 else ""
        title = prefix + name
        kind = draw(st.sampled_from(["text"] * 6 + ["redirect", "redirect",
                                                    "notext", "empty",
                                                    "selfclosed"]))
        model = draw(st.sampled_from(MODELS_ALL))
        if ns == 828 and draw(st.booleans()):
            model = "Scribunto"
        core = "".join(draw(st.lists(st.sampled_from(BODY_BITS), min_size=0,
                                     max_size=6)))
        p = {"title": title, "ns": ns, "model": model, "redirect": None,
             "text": core, "core": core}
        if kind == "redirect":
            p["redirect"] = prefix + draw(st.sampled_from(NAMES))
            # a redirect page keeps a generated model; see optional_keys()
            if draw(st.integers(0, 2)) == 0:
                p["model"] = "wikitext"
            p["text"] = draw(st.sampled_from([None, "#REDIRECT [[x]]"]))
        elif kind == "notext":
            p["text"] = None
        elif kind == "empty":
            p["text"] = p["core"] = ""
        elif kind == "selfclosed":
            p["text"] = p["core"] = ""
            p["selfclosed"] = True
        elif ns == 10:
            # template bodies: core free of inclusion-control syntax, wrapped
            core = core.replace("<!-- c -->", "cc")
            p["core"] = core
            p["text"] = wrap(core, draw(st.sampled_from(WRAPPERS)))
        if draw(st.integers(0, 9)) == 0:
            p["comment"] = "edit <summary> & more"
        pages.append(p)
    # a redirect page with an excluded content model may be stored or left
    # out (optional_keys); where its title occurs twice the two readings
    # would combine with the duplicate rule, so it is written as wikitext
    seen_titles = collections.Counter((p["title"], p["ns"]) for p in pages)
    for p in pages:
        if p["redirect"] is not None and p["model"] not in MODELS_KEPT and \
                seen_titles[(p["title"], p["ns"])] > 1:
            p["model"] = "wikitext"
    pool = sorted(set(common) | {p["ns"] for p in pages if p["ns"] in ns_names})
    selected = set(draw(st.lists(st.sampled_from(pool or [0]), unique=True,
                                 max_size=len(pool or [0]))))
    return {"lang": lang, "pages": pages, "selected": sorted(selected),
            "xmlns": draw(st.booleans()), "siteinfo": draw(st.booleans()),
            "via": draw(st.sampled_from(["process_dump", "parse_dump_xml"]))}


def features(case, exp):
    pages = case["pages"]
    sel = set(case["selected"])
    f = set()
    if any(p["ns"] not in sel for p in pages):
        f.add("filtered-namespace")
    if any(set("&<>\"'") & set(p["text"] or "") or "]]>" in (p["text"] or "")
           for p in pages if p["ns"] in sel):
        f.add("xml-special-body")
    if any(set("&<>\"'") & set(p["title"]) for p in pages if p["ns"] in sel):
        f.add("xml-special-title")
    titles = [(p["title"], p["ns"]) for p in pages]
    if len(titles) != len(set(titles)):
        f.add("duplicate-title")
    if any(p["redirect"] is not None for p in pages):
        f.add("redirect")
    if any(p["model"] not in MODELS_KEPT for p in pages if p["ns"] in sel):
        f.add("dropped-model")
    if any(p["title"].endswith("/documentation") or "/testcases" in p["title"]
           for p in pages if p["ns"] in sel):
        f.add("doc-or-testcases")
    if any(p["ns"] == 10 and p["text"] != p["core"] for p in pages):
        f.add("inclusion-control")
    if any((p["text"] or "") != (p["text"] or "").strip() for p in pages):
        f.add("edge-whitespace")
    return f


def run_case(case):
    """Returns None or (sig, what)."""
    from wikitextprocessor import dumpparser

    ns_names = ns_table(case["lang"])
    sel = set(case["selected"])
    exp = expected_map(case["pages"], sel, ns_names)
    d = tempfile.mkdtemp(prefix="verif-c12-", dir=os.environ.get("VERIF_TMP"))
    try:
        path = os.path.join(d, "dump.xml.bz2")
        write_dump(case["pages"], path, case["xmlns"], case["siteinfo"],
                   ns_names)
        ctx = env.new_ctx(db_path=os.path.join(d, "db.sqlite"),
                          lang_code=case["lang"])
        try:
            try:
                if case["via"] == "process_dump":
                    dumpparser.process_dump(ctx, path, sel)
                    exp = with_defaults(exp, ns_names)
                else:
                    dumpparser.parse_dump_xml(ctx, path, sel)
                    ctx.db_conn.commit()
            except Exception as e:
                return ({"kind": "exception", **exc_bucket(e)},
                        f"{case['via']} raised {exc_text(e)}")
            got = {}
            for p in ctx.get_all_pages():
                k = (p.title, p.namespace_id)
                if k in got:
                    return ({"kind": "duplicate-row"}, f"two rows for {k!r}")
                got[k] = (p.body, p.redirect_to, p.model)
        finally:
            try:
                ctx.close_db_conn()
            except Exception:
                pass
    finally:
        shutil.rmtree(d, ignore_errors=True)
    for k in optional_keys(case["pages"], sel):
        if k in exp and k not in got:
            del exp[k]
    if got == exp:
        return None
    missing = sorted(set(exp) - set(got))
    extra = sorted(set(got) - set(exp))
    altered = sorted(k for k in set(exp) & set(got) if exp[k] != got[k])
    if missing:
        k = missing[0]
        return ({"kind": "missing", "ns_is_template": k[1] == 10},
                f"page {k!r} expected {exp[k]!r} is not in the store "
                f"(selected {sorted(sel)})")
    if extra:
        k = extra[0]
        cls = "default-template" if k[0].split(":")[-1] in DEFAULTS else "page"
        return ({"kind": "extra", "class": cls},
                f"store has {k!r} = {got[k]!r}, which the dump and the "
                f"selection {sorted(sel)} do not give")
    k = altered[0]
    field = [n for n, a, b in zip(("body", "redirect_to", "model"), exp[k],
                                  got[k]) if a != b][0]
    return ({"kind": "altered", "field": field, "ns_is_template": k[1] == 10},
            f"page {k!r}: stored {got[k]!r}, dump gives {exp[k]!r}")


def shard(idx, seed, n, langs, known):
    env.setup()
    part = Part()
    buckets = {}

    def body(case):
        ns_names = ns_table(case["lang"])
        exp = expected_map(case["pages"], set(case["selected"]), ns_names)
        f = features(case, exp)
        nt = "filtered-namespace" in f and (
            "xml-special-body" in f or "xml-special-title" in f
            or "duplicate-title" in f)
        part.case(h(case), nt,
                  classes=sorted(f) + ["via:" + case["via"],
                                       "lang:" + case["lang"],
                                       "pages:%d" % min(len(case["pages"]) // 5 * 5, 25)],
                  sample={"selected": case["selected"], "via": case["via"],
                          "pages": [(p["title"], p["ns"], p["model"],
                                     p["redirect"], (p["text"] or "")[:40])
                                    for p in case["pages"][:6]]})
        v = run_case(case)
        if v is None:
            return
        sig, what = v
        rep = {"case": case}
        for k in known:
            if sig_matches(k["signature"], sig):
                if not part.excluded[k["id"]]:
                    part.violation(sig, what, rep)
                part.excluded[k["id"]] += 1
                return
        key = h(sig)
        if key not in buckets or len(case["pages"]) < len(buckets[key][2]["case"]["pages"]):
            buckets[key] = (sig, what, rep)

    per = max(1, n // len(langs))
    for li, lang in enumerate(langs):
        hyp.search(dump_case(lang), body, per, seed * 1000 + idx * 10 + li,
                   shrink=False)
    for sig, what, rep in buckets.values():
        part.violation(sig, what, rep)
    return part.to_dict()


def minimise(case):
    """Greedy page removal keeping the same violation signature."""
    v = run_case(case)
    if v is None:
        return case, None
    sig = v[0]
    pages = list(case["pages"])
    i = 0
    while i < len(pages):
        trial = dict(case, pages=pages[:i] + pages[i + 1:])
        w = run_case(trial)
        if w is not None and w[0] == sig:
            pages = trial["pages"]
        else:
            i += 1
    case = dict(case, pages=pages)
    return case, run_case(case)


def run(run):
    quick = run.tier == "quick"
    procs = par.nprocs(run.tier)
    langs = ["en"] if quick else ["en", "fr", "zh"]
    n = 350 if quick else 6000
    for d in par.map_shards(shard, [(i, run.seed, n, langs, run.known)
                                    for i in range(procs)], procs):
        # shrink each reported case a little before it becomes a replay file
        for v in d["violations"]:
            try:
                c2, w = minimise(v["replay"]["case"])
                if w is not None:
                    v["replay"] = {"case": c2}
                    v["what"] = w[1]
            except Exception:
                pass
        run.merge(d)
    run.rule = (
        "Generated MediaWiki export dumps (0-25 pages; namespaces over every "
        "id of the language's namespaces.json plus unknown ids; titles with "
        "the local prefix and names with colons, slashes, Unicode, XML-special "
        "characters, double blanks, /documentation and /testcases and near "
        "misses, the four default helper names; bodies with & < > \" ' ]]> "
        "CDATA look-alikes, significant whitespace, tabs, CR as character "
        "reference, astral characters, empty / missing / self-closed <text>; "
        "redirects; nine content models; duplicate titles; template bodies "
        "wrapped in inclusion control), written by a harness-owned XML writer "
        "with / without xmlns and siteinfo, bz2-compressed, ingested through "
        "process_dump or parse_dump_xml with a generated namespace selection. "
        "Oracle: {(title, ns): (body, redirect_to, model)} from "
        "get_all_pages() equals the map computed from the page list by the "
        "statement's rules, compared in both directions (missing, extra, "
        "altered). Non-trivial = at least one filtered-out page and XML-special "
        "characters in a selected page or a duplicate title."
    )
    run.assumptions = [
        "titles carry the correct local namespace prefix (as real dumps do); "
        "unknown namespace ids are never selected",
        "'documentation / testcases subpage' is read as the code documents "
        "it: title ends with /documentation or contains /testcases",
        "a redirect page with an excluded content model may be stored as a "
        "redirect row or left out (the statement does not say which rule "
        "wins); where its title is duplicated it is written as wikitext",
        "characters invalid in XML 1.0 are not generated; CR is written as "
        "&#13;",
    ]
    run.trusted_base = ["the XML writer in checks/c12_dump.py (xml.sax "
                        "escaping)", "lxml / bz2"]


def replay(run, case):
    env.setup()
    c = case["case"]
    run.case(h(c), True, sample={"selected": c["selected"], "via": c["via"]})
    v = run_case(c)
    if v is not None:
        run.violation(v[0], v[1], case)
