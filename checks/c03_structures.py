"""C03 — tables, HTML elements, links and template calls parse to their written
structure (DESIGN 5/C03)."""

import itertools

from hypothesis import strategies as st

from refs import tree as rtree
from vlib import env, hyp, par
from vlib.bucket import exc_bucket, exc_text
from vlib.run import Part, h, sig_matches

# includes names with upper-case letters: the map must hold the names as
# written
ATTR_NAMES = ["class", "id", "style", "lang", "title", "data-x", "colspan",
              "rowspan", "align", "colSpan", "Data-Y", "ID2", "xml:Lang"]
ATTR_VALUES = ["a", "b1", "x-y", "k_2", "9", "foo.bar", "A~z", "2"]
SPECIAL_TAGS = {"pre", "nowiki", "section"}


def permitted(table, child, parent):
    """May element `child` sit directly inside element `parent`?  Read off the
    allowed-tag table itself (its category words), not off the sets the
    parser derives from it: an explicit parent, or a flow / phrasing child in
    a parent whose content model takes that category ('*' takes both, flow
    content includes phrasing content)."""
    c, p = table.get(child, {}), table.get(parent, {})
    cp, pc = c.get("parents", []), p.get("content", [])
    if parent in cp:
        return True
    if ("flow" in cp or "*" in cp) and ("flow" in pc or "*" in pc):
        return True
    if ("phrasing" in cp or "*" in cp) and (
            "phrasing" in pc or "flow" in pc or "*" in pc):
        return True
    return False


# inline catalogue: (label, text).  Never starts with a table / list marker or
# blank, never contains a bare | or !! outside a nested construct.
CONTENT = [
    ("text", "x1"), ("words", "two words"), ("template", "{{t|a|b}}"),
    ("link", "[[link|label]]"), ("bold", "'''bold'''"), ("italic", "''it''"),
    ("span", "<span>s</span>"), ("b+text", "<b>b</b> t"),
    ("extlink", "[http://x.org ext]"), ("empty", ""),
    ("template+tail", "{{t|k=v}} tail"), ("two-links", "[[a]] and [[b|c]]"),
    ("pfn", "{{#if:x|y|z}}"), ("arg", "{{{1|d}}}"), ("entity", "a &amp; b"),
    ("bolditalic", "'''''bi'''''"), ("nested", "[[l|''i'' {{t|q}}]]"),
    # a literal | is only literal in a cell that already has attributes
    ("bar-text", "p | q"),
    # the same |-separated argument list written as three different kinds
    # of construct (they must stay what they were written as)
    ("same-as-template", "{{same|arg}}"), ("same-as-link", "[[same|arg]]"),
    ("same-as-targ", "{{{same|arg}}}"),
]
CONTENT_D = dict(CONTENT)
# arguments of template / parser-function calls: markup that the parser keeps
# structured inside a call (tags and quotes are plain text there by design)
CALL_ARGS = ["x1", "two words", "{{t|a|b}}", "[[link|label]]", "k=v",
             "1={{u}}", "{{{p}}}", "", "a [[b]] c", "{{#if:x|y}}"]
LINK_ARGS = ["x1", "two words", "'''bold'''", "''it''", "<span>s</span>",
             "{{t|a}}", "thumb", "alt=x y", ""]


def render_attrs(pairs, style):
    out = []
    for i, (k, v) in enumerate(pairs):
        q = (style + i) % 3
        out.append(f'{k}="{v}"' if q == 0 else f"{k}='{v}'" if q == 1
                   else f"{k}={v}")
    return " ".join(out)


# ------------------------------------------------------------------ tables
# spec = {"attrs": [...], "style": n, "caption": None | {"attrs", "content"},
#         "rows": [{"attrs": [...], "lines": [{"hdr": bool, "sep": "||"|"!!",
#                   "cells": [{"attrs": [...], "content": label}]}]}]}


def fix_bar_text(spec):
    """'p | q' is plain text only after an attribute section; give such cells
    (and captions) one."""
    for row in spec["rows"]:
        for ln in row["lines"]:
            for c in ln["cells"]:
                if c["content"] == "bar-text" and not c["attrs"]:
                    c["attrs"] = [["class", "a"]]
    cap = spec["caption"]
    if cap is not None and cap["content"] == "bar-text" and not cap["attrs"]:
        cap["attrs"] = [["class", "a"]]
    return spec


def render_table(spec):
    st_ = spec["style"]
    out = ["{|" + ((" " + render_attrs(spec["attrs"], st_)) if spec["attrs"]
                   else "")]
    cap = spec["caption"]
    if cap is not None:
        out.append("|+" + ((" " + render_attrs(cap["attrs"], st_) + " |")
                           if cap["attrs"] else "")
                   + " " + CONTENT_D[cap["content"]])
    for row in spec["rows"]:
        out.append("|-" + ((" " + render_attrs(row["attrs"], st_))
                           if row["attrs"] else ""))
        for ln in row["lines"]:
            parts = []
            for c in ln["cells"]:
                parts.append(((render_attrs(c["attrs"], st_) + " | ")
                              if c["attrs"] else "") + CONTENT_D[c["content"]])
            out.append(("!" if ln["hdr"] else "|") + " "
                       + (" " + ln["sep"] + " ").join(parts))
    out.append("|}")
    return "\n".join(out) + "\n"


def nonblank(children):
    return [c for c in children if not (isinstance(c, str) and not c.strip())]


def content_matches(ctx, node_children, text, NodeKind, WikiNode):
    # the stand-alone reference is parsed as a page of its own: per-page
    # caches of the context must not carry the document's reading over
    ctx.start_page("Reference")
    ctx2root = ctx.parse(text)
    a = rtree.canon(node_children, NodeKind, WikiNode)
    b = rtree.canon(ctx2root.children, NodeKind, WikiNode)
    return a == b, a, b


def check_table(ctx, spec):
    from wikitextprocessor import NodeKind, WikiNode

    K = NodeKind
    spec = fix_bar_text(spec)
    text = render_table(spec)
    ctx.start_page("Test")
    try:
        root = ctx.parse(text)
    except Exception as e:
        return ({"kind": "exception", **exc_bucket(e)}, exc_text(e)), text
    probs = rtree.check_tree(root, "Test", K, WikiNode)
    if probs:
        return ({"kind": "tree", "rule": probs[0][0]}, str(probs[0])), text
    top = nonblank(root.children)
    if len(top) != 1 or not isinstance(top[0], WikiNode) or top[0].kind != K.TABLE:
        return ({"kind": "table-count"},
                f"top level: {[getattr(x, 'kind', x) for x in top]}"), text
    t = top[0]
    if t.attrs != dict(spec["attrs"]):
        return ({"kind": "attrs", "where": "table"},
                f"table attrs {t.attrs} expected {dict(spec['attrs'])}"), text
    kids = nonblank(t.children)
    cap = spec["caption"]
    if cap is not None:
        if not kids or not isinstance(kids[0], WikiNode) \
                or kids[0].kind != K.TABLE_CAPTION:
            return ({"kind": "caption-missing"}, repr(kids[:1])[:120]), text
        cn = kids.pop(0)
        if cn.attrs != dict(cap["attrs"]):
            return ({"kind": "attrs", "where": "caption"},
                    f"caption attrs {cn.attrs} expected {dict(cap['attrs'])}"),\
                text
        ok, a, b = content_matches(ctx, cn.children, CONTENT_D[cap["content"]],
                                   K, WikiNode)
        if not ok:
            return ({"kind": "content", "where": "caption",
                     "content": cap["content"]}, f"{a} != {b}"[:300]), text
    if len(kids) != len(spec["rows"]) or any(
            not isinstance(k, WikiNode) or k.kind != K.TABLE_ROW for k in kids):
        return ({"kind": "row-count"},
                f"{[getattr(k, 'kind', k) for k in kids]} expected "
                f"{len(spec['rows'])} rows"[:300]), text
    for ri, (rn, row) in enumerate(zip(kids, spec["rows"])):
        if rn.attrs != dict(row["attrs"]):
            return ({"kind": "attrs", "where": "row"},
                    f"row {ri} attrs {rn.attrs} expected {dict(row['attrs'])}"),\
                text
        cells = [(ln["hdr"], c) for ln in row["lines"] for c in ln["cells"]]
        got = nonblank(rn.children)
        kinds = [g.kind.name if isinstance(g, WikiNode) else "str" for g in got]
        want = ["TABLE_HEADER_CELL" if hd else "TABLE_CELL" for hd, _ in cells]
        if kinds != want:
            return ({"kind": "cell-kinds"},
                    f"row {ri}: {kinds} expected {want}"), text
        for ci, (g, (hd, c)) in enumerate(zip(got, cells)):
            if g.attrs != dict(c["attrs"]):
                return ({"kind": "attrs", "where": "cell"},
                        f"cell {ri},{ci} attrs {g.attrs} expected "
                        f"{dict(c['attrs'])}"), text
            ok, a, b = content_matches(ctx, g.children, CONTENT_D[c["content"]],
                                       K, WikiNode)
            if not ok:
                return ({"kind": "content", "where": "cell",
                         "content": c["content"]},
                        f"cell {ri},{ci}: {a} != {b}"[:300]), text
    return None, text


def attrs_st(maxn=3):
    pair = st.tuples(st.sampled_from(ATTR_NAMES), st.sampled_from(ATTR_VALUES))
    return st.lists(pair, max_size=maxn, unique_by=lambda p: p[0]).map(
        lambda ps: [list(p) for p in ps])


def table_st():
    labels = [l for l, _ in CONTENT]
    cell = st.fixed_dictionaries({"attrs": attrs_st(2),
                                  "content": st.sampled_from(labels)})

    def row(c):
        # split c cells into lines
        def mk(t):
            cells, cuts, hdrs, seps, rattrs = t
            lines, cur = [], []
            for i, ce in enumerate(cells):
                cur.append(ce)
                if i == len(cells) - 1 or cuts[i]:
                    lines.append(cur)
                    cur = []
            out = []
            for j, ln in enumerate(lines):
                hdr = hdrs[j % len(hdrs)]
                sep = "!!" if (hdr and seps[j % len(seps)]) else "||"
                out.append({"hdr": hdr, "sep": sep, "cells": ln})
            return {"attrs": rattrs, "lines": out}

        return st.tuples(
            st.lists(cell, min_size=c, max_size=c),
            st.lists(st.booleans(), min_size=c, max_size=c),
            st.lists(st.booleans(), min_size=4, max_size=4),
            st.lists(st.booleans(), min_size=4, max_size=4),
            attrs_st(2),
        ).map(mk)

    def build(rc):
        r, c = rc
        return st.fixed_dictionaries({
            "attrs": attrs_st(3),
            "style": st.integers(0, 2),
            "caption": st.none() | st.fixed_dictionaries({
                "attrs": attrs_st(1), "content": st.sampled_from(labels)}),
            "rows": st.lists(row(c), min_size=r, max_size=r),
        })

    return st.tuples(st.integers(1, 4), st.integers(1, 4)).flatmap(build)


def enum_tables():
    """Shape x separator style x kind pattern, contents cycled."""
    labels = [l for l, _ in CONTENT]
    k = 0
    for r in range(1, 5):
        for c in range(1, 5):
            for layout in ("oneline", "multiline", "split"):
                for kinds in ("data", "header", "hdr-first-row", "hdr-first-cell",
                              "alternate"):
                    for with_attrs in (False, True):
                        rows = []
                        for ri in range(r):
                            cells = []
                            for ci in range(c):
                                k += 1
                                cells.append({
                                    "attrs": ([[ATTR_NAMES[k % len(ATTR_NAMES)],
                                                ATTR_VALUES[k % 8]]]
                                              if with_attrs and k % 2 else []),
                                    "content": labels[k % len(labels)]})

                            def hdr(ci):
                                return {"data": False, "header": True,
                                        "hdr-first-row": ri == 0,
                                        "hdr-first-cell": ci == 0,
                                        "alternate": (ri + ci) % 2 == 0}[kinds]

                            lines = []
                            if layout == "multiline":
                                for ci, ce in enumerate(cells):
                                    lines.append({"hdr": hdr(ci), "sep": "||",
                                                  "cells": [ce]})
                            else:
                                # group consecutive cells of equal kind; "split"
                                # additionally breaks after the first cell
                                cur, curk = [], None
                                for ci, ce in enumerate(cells):
                                    kk = hdr(ci)
                                    if cur and (kk != curk or (
                                            layout == "split" and len(cur) == 1
                                            and ci == 1)):
                                        lines.append({"hdr": curk,
                                                      "sep": "!!" if curk else "||",
                                                      "cells": cur})
                                        cur = []
                                    cur.append(ce)
                                    curk = kk
                                lines.append({"hdr": curk,
                                              "sep": "!!" if curk else "||",
                                              "cells": cur})
                            rows.append({"attrs": ([["id", f"r{ri}"]]
                                                   if with_attrs else []),
                                         "lines": lines})
                        yield {"attrs": ([["class", "t"], ["id", "x-y"]]
                                         if with_attrs else []),
                               "style": k % 3,
                               "caption": ({"attrs": [["lang", "fi"]]
                                            if with_attrs else [],
                                            "content": labels[k % len(labels)]}
                                           if k % 3 == 0 else None),
                               "rows": rows}


# ------------------------------------------------------------------ HTML


def paired_tags(ctx):
    return sorted(t for t, d in ctx.allowed_html_tags.items()
                  if not d.get("no-end-tag") and t not in SPECIAL_TAGS)


def check_html(ctx, tag, attrs, style, content, inner):
    from wikitextprocessor import NodeKind, WikiNode

    K = NodeKind
    body = CONTENT_D[content]
    if inner is not None:
        body = f"<{inner}>{body}</{inner}>"
    text = f"<{tag}" + ((" " + render_attrs(attrs, style)) if attrs else "") \
        + f">{body}</{tag}>"
    ctx.start_page("Test")
    try:
        root = ctx.parse(text)
    except Exception as e:
        return ({"kind": "exception", **exc_bucket(e)}, exc_text(e)), text
    probs = rtree.check_tree(root, "Test", K, WikiNode)
    if probs:
        return ({"kind": "tree", "rule": probs[0][0]}, str(probs[0])), text
    top = nonblank(root.children)
    if len(top) != 1 or not isinstance(top[0], WikiNode) \
            or top[0].kind != K.HTML or top[0].sarg != tag:
        return ({"kind": "html-node", "tag": tag},
                f"top level {top!r}"[:200]), text
    n = top[0]
    if n.attrs != dict(attrs):
        return ({"kind": "attrs", "where": "html"},
                f"<{tag}> attrs {n.attrs} expected {dict(attrs)}"), text
    ok, a, b = content_matches(ctx, n.children, body, K, WikiNode)
    if not ok:
        return ({"kind": "content", "where": "html", "content": content},
                f"<{tag}>: {a} != {b}"[:300]), text
    return None, text


# ------------------------------------------------------------------ calls


def check_call(ctx, form, head, args, multiline=False):
    from wikitextprocessor import NodeKind, WikiNode

    K = NodeKind
    if form == "template" and multiline:
        # the usual way long calls are written: one argument per line
        text = "{{" + head + "".join("\n| " + a for a in args) + "\n}}"
        kind, n_args = K.TEMPLATE, 1 + len(args)
    elif form == "template":
        text = "{{" + "|".join([head] + args) + "}}"
        kind, n_args = K.TEMPLATE, 1 + len(args)
    elif form == "pfn" and multiline:
        text = ("{{" + head + ": " + args[0]
                + "".join("\n| " + a for a in args[1:]) + "\n}}")
        kind, n_args = K.PARSER_FN, 1 + max(1, len(args))
    elif form == "pfn":
        text = "{{" + head + ":" + "|".join(args) + "}}"
        kind, n_args = K.PARSER_FN, 1 + max(1, len(args))
    elif form == "link":
        text = "[[" + "|".join([head] + args) + "]]"
        kind, n_args = K.LINK, 1 + len(args)
    elif form == "targ":
        text = "{{{" + "|".join([head] + args) + "}}}"
        kind, n_args = K.TEMPLATE_ARG, 1 + len(args)
    else:
        text = "[" + head + ((" " + args[0]) if args else "") + "]"
        kind, n_args = K.URL, 1 + (1 if args else 0)
    ctx.start_page("Test")
    try:
        root = ctx.parse(text)
    except Exception as e:
        return ({"kind": "exception", **exc_bucket(e)}, exc_text(e)), text
    probs = rtree.check_tree(root, "Test", K, WikiNode)
    if probs:
        return ({"kind": "tree", "rule": probs[0][0]}, str(probs[0])), text
    top = nonblank(root.children)
    if len(top) != 1 or not isinstance(top[0], WikiNode) or top[0].kind != kind:
        return ({"kind": "call-node", "form": form},
                f"top level {top!r}"[:200]), text
    n = top[0]
    if len(n.largs) != n_args:
        return ({"kind": "arg-count", "form": form},
                f"{len(n.largs)} argument lists expected {n_args}: "
                f"{n.largs!r}"[:300]), text
    if [x.strip() if isinstance(x, str) else x for x in n.largs[0]] != [head]:
        return ({"kind": "call-head", "form": form}, repr(n.largs[0])), text
    written = args if form != "extlink" else args[:1]
    for i, a in enumerate(written):
        got = n.largs[i + 1]
        ctx.start_page("Reference")
        ref = ctx.parse(a).children
        ga = rtree.canon(got, K, WikiNode)
        gb = rtree.canon(ref, K, WikiNode)
        if ga != gb:
            return ({"kind": "arg-content", "form": form},
                    f"argument {i + 1} {a!r}: {ga} != {gb}"[:300]), text
    return None, text


# ------------------------------------------------------------------ shards


def shard(idx, nshards, seed, quick, n_random, known):
    env.setup()
    part = Part()
    ctx = env.new_ctx()
    buckets = {}

    def handle(r, text, key, nontriv, cls, rep):
        part.case(h(key), nontriv, classes=cls, sample={"text": text[:300]})
        if r is None:
            return
        sig, what = r
        for k in known:
            if sig_matches(k["signature"], sig):
                if not part.excluded[k["id"]]:
                    part.violation(sig, what, rep)
                part.excluded[k["id"]] += 1
                return
        kk = h(sig)
        if kk not in buckets or len(text) < buckets[kk][3]:
            buckets[kk] = (sig, what, rep, len(text))

    def table_nontrivial(spec):
        cells = [c for r in spec["rows"] for ln in r["lines"] for c in ln["cells"]]
        has_attr = bool(spec["attrs"]) or any(r["attrs"] for r in spec["rows"]) \
            or any(c["attrs"] for c in cells)
        has_bar = any("|" in CONTENT_D[c["content"]] for c in cells)
        return len(spec["rows"]) >= 2 and len(cells) >= 2 and (has_attr or has_bar)

    def table_classes(spec):
        cls = ["table"]
        kinds = {ln["hdr"] for r in spec["rows"] for ln in r["lines"]}
        if len(kinds) == 2:
            cls.append("table:mixed-kinds")
        if any(len(ln["cells"]) > 1 for r in spec["rows"] for ln in r["lines"]):
            cls.append("table:one-line-cells")
        if any(len(r["lines"]) > 1 for r in spec["rows"]):
            cls.append("table:multi-line-row")
        if spec["caption"] is not None:
            cls.append("table:caption")
        return cls

    n = 0
    for spec in enum_tables():
        n += 1
        if n % nshards != idx:
            continue
        if quick and n % 2 != seed % 2:
            continue
        r, text = check_table(ctx, spec)
        handle(r, text, ["table", spec], table_nontrivial(spec),
               table_classes(spec) + ["gen:enum"], {"part": "table", "spec": spec})
    tags = paired_tags(ctx)
    table = ctx.allowed_html_tags
    labels = [l for l, _ in CONTENT]
    for ti, tag in enumerate(tags):
        if ti % nshards != idx:
            continue
        inners = [None] + [t for t in ("b", "span", "i", "sup")
                           if permitted(table, t, tag) and t != tag]
        # inline elements inside the written content must be permitted
        # children of the outer element (otherwise the parser auto-closes the
        # outer one on purpose: the permitted-parent mechanism)
        inner_of = {"span": ["span"], "b+text": ["b"]}
        for ai, attrs in enumerate(([], [["class", "a"]],
                                    [["id", "x-y"], ["lang", "fi"],
                                     ["data-x", "foo.bar"]])):
            for ci, content in enumerate(labels):
                if any(not permitted(table, t, tag)
                       for t in inner_of.get(content, [])):
                    part.excluded["inner element not permitted in outer"] += 1
                    continue
                for inner in inners:
                    if quick and (ci + ai + ti) % 3 != seed % 3:
                        continue
                    r, text = check_html(ctx, tag, attrs, ai, content, inner)
                    handle(r, text, ["html", tag, attrs, content, inner],
                           bool(attrs), ["html", "html:inner"] if inner
                           else ["html"],
                           {"part": "html", "tag": tag, "attrs": attrs,
                            "style": ai, "content": content, "inner": inner})
    # calls: every form x all argument vectors of length <= 2 (+ sampled longer)
    forms = [("template", "tpl", CALL_ARGS), ("pfn", "#if", CALL_ARGS),
             ("link", "Target", LINK_ARGS), ("targ", "p", CALL_ARGS[:6]),
             ("extlink", "http://x.org/a", ["text", "two words", "'''b'''",
                                            "{{t|a}}", "[[l]] x"])]
    m = 0
    for form, head, pool in forms:
        maxlen = 1 if form == "extlink" else 2
        for L in range(0, maxlen + 1):
            for args in itertools.product(pool, repeat=L):
                m += 1
                if m % nshards != idx:
                    continue
                if form == "pfn" and L == 0:
                    continue
                r, text = check_call(ctx, form, head, list(args))
                nt = len(args) >= 2 and any(c in a for a in args
                                            for c in ("{{", "[[", "<"))
                handle(r, text, ["call", form, args], nt,
                       ["call:" + form],
                       {"part": "call", "form": form, "head": head,
                        "args": list(args)})
                if form in ("template", "pfn") and L >= 1:
                    r, text = check_call(ctx, form, head, list(args), True)
                    handle(r, text, ["call-ml", form, args], nt,
                           ["call:" + form + ":multiline"],
                           {"part": "call", "form": form, "head": head,
                            "args": list(args), "multiline": True})

    def body_table(spec):
        r, text = check_table(ctx, spec)
        handle(r, text, ["table", spec], table_nontrivial(spec),
               table_classes(spec) + ["gen:random"],
               {"part": "table", "spec": spec})

    hyp.search(table_st(), body_table, n_random, seed * 1000 + idx, shrink=False)

    call_st = st.sampled_from(forms[:4]).flatmap(
        lambda f: st.tuples(st.just(f[0]), st.just(f[1]),
                            st.lists(st.sampled_from(f[2]), min_size=1,
                                     max_size=5)))

    def body_call(c):
        form, head, args = c
        r, text = check_call(ctx, form, head, list(args))
        nt = len(args) >= 2 and any(x in a for a in args
                                    for x in ("{{", "[[", "<"))
        handle(r, text, ["call", form, args], nt, ["call:" + form, "gen:random"],
               {"part": "call", "form": form, "head": head, "args": list(args)})

    hyp.search(call_st, body_call, n_random, seed * 1000 + 500 + idx,
               shrink=False)
    try:
        ctx.close_db_conn()
    except Exception:
        pass
    for sig, what, rep, _ in buckets.values():
        part.violation(sig, what, rep)
    return part.to_dict()


def run(run):
    quick = run.tier == "quick"
    procs = par.nprocs(run.tier)
    n_random = 250 if quick else 15000
    for d in par.map_shards(shard, [(i, procs, run.seed, quick, n_random,
                                     run.known) for i in range(procs)], procs):
        run.merge(d)
    run.exhaustive = not quick
    run.rule = (
        "(a) grids r x c <= 4x4 enumerated over shape x layout (one line per "
        "row, one cell per line, split lines) x kind pattern (data, header, "
        "header row, header column, alternating) x attributes on/off, contents "
        "cycled through a 17-entry inline catalogue, captions with/without "
        "attributes" + (" (every second one in quick)" if quick else "")
        + ", plus Hypothesis tables with random attribute maps (three quoting "
        "styles) on table/rows/cells; (b) every paired tag of the allowed-tag "
        "table except the specially handled ones x 3 attribute maps x the "
        "catalogue x optional permitted inner element; (c) template, parser "
        "function, link, template-argument and external-link constructs with "
        "all argument vectors of length <= 2 and sampled vectors to length 5. "
        "Oracle: R-grid (one table, exactly r rows of exactly c cells of the "
        "written kind and attribute maps, in order) and, for content, "
        "differential equality of the canonical subtree with the stand-alone "
        "parse of the written content; argument-list lengths and heads for "
        "calls. Non-trivial: table with >= 2 rows, >= 2 cells and an "
        "attribute map or a '|' inside a content item; element with "
        "attributes; call with >= 2 arguments one of which is a construct."
    )
    run.assumptions = [
        "cell contents never start with a table/list marker or blank and "
        "contain no bare | or !!; attribute names/values URL-safe",
        "inside template / parser-function arguments HTML tags and quotes are "
        "plain text by design, so those argument pools hold text, links and "
        "calls only",
    ]
    run.trusted_base = ["refs/tree.py (canon)"]


def replay(run, case):
    ctx = env.new_ctx()
    try:
        if case["part"] == "table":
            r, text = check_table(ctx, case["spec"])
        elif case["part"] == "html":
            r, text = check_html(ctx, case["tag"], case["attrs"], case["style"],
                                 case["content"], case["inner"])
        else:
            r, text = check_call(ctx, case["form"], case["head"], case["args"],
                                 bool(case.get("multiline")))
    finally:
        ctx.close_db_conn()
    run.case(h(case), True, sample={"text": text[:300]})
    if r is not None:
        run.violation(r[0], r[1], case)
