"""C01 — parse() is total and returns a well-formed tree (DESIGN 5/C01)."""

import re

from hypothesis import strategies as st

from gens import doc, mut, soup
from refs import tree as rtree
from vlib import env, guard, hyp, par
from vlib.bucket import exc_bucket, exc_text
from vlib.run import Part, h

import collections

MODES = ["plain", "expand_all", "pre_expand"]
# "returns normally": parse() of an input of at most SHORT_LEN characters
# that is still running after PARSE_BOUND_S is reported (normal time: 1 ms),
# with the place it was interrupted at in the signature.  Slow parses of
# longer inputs are counted as inconclusive: the bound is meant to separate
# "does not return" from "slow", and for long inputs it cannot.
PARSE_BOUND_S = 30.0
SHORT_LEN = 600
INCONCLUSIVE = collections.Counter()

# Template library for modes (b)/(c): bodies that emit structure.
LIB = {
    "tpl": "body {{{1|d}}}",
    "foo bar": "{|\n|-\n| {{{1}}}\n",
    "T1": "|}",
    "m": "* item {{{1|}}}\n** sub",
    "l": "== H{{{1|}}} ==",
    "t": "'''{{{1|x}}}",
    "tstart": "{| class=x",
    "trow": "\n|-\n| a || b",
    "tend": "\n|}",
    "loop": "{{loop}}",
}
PRE_EXPAND = {"foo bar", "T1", "tstart", "tend", "l"}


def make_ctx():
    ctx = env.new_ctx()
    for name, body in LIB.items():
        ctx.add_page("Template:" + name, 10, body,
                     need_pre_expand=name in PRE_EXPAND)
    ctx.db_conn.commit()
    return ctx


def check_one(ctx, text, mode):
    """Returns None or (signature, what)."""
    from wikitextprocessor import NodeKind, WikiNode

    ctx.start_page("Test")
    try:
        kw = {"plain": {}, "expand_all": {"expand_all": True},
              "pre_expand": {"pre_expand": True}}[mode]
        # "total" includes "returns": a wall-clock bound with a margin of
        # three to four orders of magnitude over the normal parse time
        status, root, el = guard.call(ctx.parse, PARSE_BOUND_S, text, **kw)
        if status == "timeout":
            ctx.parser_stack = []
            if len(text) > SHORT_LEN:
                INCONCLUSIVE["inconclusive:slow-parse-of-long-input"] += 1
                return None
            return ({"kind": "timeout", "mode": mode,
                     "where": guard.LAST_WHERE},
                    f"parse() still running after {PARSE_BOUND_S:.0f} s")
        if status == "exc":
            raise root
    except RecursionError as e:
        # CPython's recursion limit, not the parser, decides beyond the
        # property's nesting bound of 100; only reported within the bound.
        if nesting_estimate(text) > 100:
            return None
        b = exc_bucket(e)
        return ({"kind": "exception", **b, "mode": mode}, exc_text(e))
    except Exception as e:
        b = exc_bucket(e)
        return ({"kind": "exception", **b, "mode": mode}, exc_text(e))
    if ctx.parser_stack != []:
        return ({"kind": "stack-left", "mode": mode},
                f"parser_stack has {len(ctx.parser_stack)} nodes after parse")
    probs = rtree.check_tree(root, "Test", NodeKind, WikiNode)
    if probs:
        rule, detail = probs[0]
        return ({"kind": "tree", "rule": rule, "mode": mode},
                f"{rule}: {detail}")
    # left-over mode flags would change the next parse on the same context
    try:
        r2 = ctx.parse("== H ==\ntext")
    except Exception as e:
        return ({"kind": "exception-after", **exc_bucket(e)}, exc_text(e))
    ok = (
        len(r2.children) == 1
        and isinstance(r2.children[0], WikiNode)
        and r2.children[0].kind == NodeKind.LEVEL2
    )
    if not ok:
        return ({"kind": "state-leak", "mode": mode},
                f"'== H ==' parsed to {r2.children!r} after the case"[:200])
    return None


def nesting_estimate(text):
    d = m = 0
    for tok in re.findall(r"\{\{|\}\}|\[\[|\]\]|<[a-z]+>|</[a-z]+>|\{\||\|\}", text):
        if tok in ("{{", "[[", "{|") or (tok[0] == "<" and tok[1] != "/"):
            d += 1
            m = max(m, d)
        else:
            d = max(0, d - 1)
    return m


def nontrivial(text, root_depth=None):
    return len(soup.struct_classes(text)) >= 3


def shard(idx, seed, n_soup, n_doc, n_mut, n_deep, known):
    from vlib.run import sig_matches

    env.setup()
    part = Part()
    ctx = make_ctx()

    def body(case):
        text, mode = case
        r = check_one(ctx, text, mode)
        cls = soup.struct_classes(text)
        part.case(
            h(text + "\0" + mode), len(cls) >= 3,
            classes=["mode:" + mode] + ["tok:" + c for c in cls],
            sample={"text": text[:300], "mode": mode},
        )
        if r is not None:
            sig, what = r
            for k in known:
                if sig_matches(k["signature"], sig):
                    if not part.excluded[k["id"]]:
                        part.violation(sig, what, {"text": text, "mode": mode})
                    part.excluded[k["id"]] += 1
                    return
            raise hyp.Found(sig, what, {"text": text, "mode": mode})

    mode = st.sampled_from(MODES)
    plans = [
        ("soup", st.tuples(soup.soup(40), mode), n_soup),
        ("doc", st.tuples(doc.document(), mode), n_doc),
        ("mut", st.tuples(mut.mutated(), mode), n_mut),
        ("deep", st.tuples(doc.deep_nest(100), mode), n_deep),
    ]
    try:
        for name, strat, n in plans:
            if n <= 0:
                continue
            before = part.evaluations
            f = hyp.search(strat, body, n, seed * 1000 + idx)
            part.classes["gen:" + name] += part.evaluations - before
            if f is not None:
                part.violation(f.signature, f.what, f.replay)
                break
    finally:
        ctx.close_db_conn()
    flush_inconclusive(part)
    return part.to_dict()


def flush_inconclusive(part):
    for k, v in INCONCLUSIVE.items():
        part.excluded[k] += v
    INCONCLUSIVE.clear()


# pump stage: an opener followed by many repetitions of one unit (or a pair of
# units).  Step counts that double per repetition (ambiguous regular
# expressions, positions expanded twice) show up as a parse that does not
# return; nothing here nests deeper than the opener.
PUMP_OPENERS = ["", "{{x", "{{x|", "{{{x|", "{{#if:x|", "[[a", "[[a|",
                "[http://x.org ", "<b>", "<span ", "{|\n|", "-{", "<ref>",
                "<nowiki>", "<!--", "'''", "== ", "<pre>", "\n* ",
                "{||", "{| ", "{|\n|-", "{|\n|+", "{|\n!", "<span a=b "]
PUMP_UNITS = ["-{}-", "-{", "}-", "{", "}", "{{", "}}", "[", "]", "[[", "]]",
              "|", "||", "\n|", "\n!", "''", "'''", "<", ">", "</", "<b", "<b>",
              "</b>", "<br>", "<!--", "-->", "&", "&amp;", "=", "==", "\n", " ",
              "x", "a=", "://", "http://x.org", "{|", "|}", "\n*", "\n:", ";",
              "__TOC__", "<nowiki/>", "{{{", "}}}", "[[a|", "{{t|", "~~~~", "\\", "{{t||1=x}}", "{{t|a=b}}", "k=v", "k=v ", "=\"", "a=b=c",
              "k='v'", "{{#if:|1=x}}"]
PUMP_N = 40
PUMP_CLOSERS = ["<abbr/>|", "\"||x", "}}", "]]", "\n|}", "|\n", "\n|-\n|x",
                ">", "'|", "</b>"]


def pump_cases(quick):
    import itertools

    for o in PUMP_OPENERS:
        for u in PUMP_UNITS:
            yield o + u * PUMP_N
    # ... followed by something that makes a look-back over the repeated
    # units fail at its very end (a separator after junk, a stray quote)
    for o in PUMP_OPENERS:
        for u in PUMP_UNITS:
            for c in PUMP_CLOSERS[(len(o) + len(u)) % 2::2] if quick \
                    else PUMP_CLOSERS:
                yield o + u * (PUMP_N // 2) + c
    # three-part shapes: a long run before the first separator, many
    # separators, a long tail - where a pattern with two or three independent
    # choices per match attempt multiplies them (the link pattern once took
    # (length)**4 steps on the first of these)
    for o in ("[[", "[[a|", "{{x|[[", "[http://x.org ", "{{", "{{{", "<span ",
              "{|\n|", "{| "):
        for sep in ("|y", "||", " k=v", "]x", "}x", "=", ":"):
            yield o + "x" * 150 + sep * 60 + "z" * 200
    pair_units = PUMP_UNITS[:24] if quick else PUMP_UNITS
    for o in PUMP_OPENERS[: 8 if quick else len(PUMP_OPENERS)]:
        for a, b in itertools.permutations(pair_units, 2):
            yield o + (a + b) * (PUMP_N // 2)


def pump_shard(idx, nshards, quick, known):
    from vlib.run import sig_matches

    env.setup()
    part = Part()
    ctx = make_ctx()
    buckets = {}
    try:
        for j, text in enumerate(pump_cases(quick)):
            if j % nshards != idx:
                continue
            modes = MODES if (not quick or (j // nshards) % 3 == 0) else ["plain"]
            for mode in modes:
                r = check_one(ctx, text, mode)
                part.case(h(text + "\0" + mode), True,
                          classes=["gen:pump", "mode:" + mode],
                          sample={"text": text[:80], "mode": mode})
                if r is None:
                    continue
                sig, what = r
                if any(sig_matches(k["signature"], sig) for k in known):
                    part.excluded["known"] += 1
                    continue
                key = h(sig)
                if key not in buckets or len(text) < len(buckets[key][2]["text"]):
                    buckets[key] = (sig, what, {"text": text, "mode": mode})
    finally:
        ctx.close_db_conn()
    flush_inconclusive(part)
    for sig, what, rep in buckets.values():
        part.violation(sig, what, rep)
    return part.to_dict()


def run(run):
    quick = run.tier == "quick"
    procs = par.nprocs(run.tier)
    if quick:
        shards, n = procs, dict(n_soup=2500, n_doc=300, n_mut=150, n_deep=40)
    else:
        shards, n = 16, dict(n_soup=60000, n_doc=5000, n_mut=2500, n_deep=400)
    args = [
        (i, run.seed, n["n_soup"], n["n_doc"], n["n_mut"], n["n_deep"], run.known)
        for i in range(shards)
    ]
    for d in par.map_shards(shard, args, procs):
        run.merge(d)
    for d in par.map_shards(ngram_shard,
                            [(i, procs, 7 if quick else 1, run.known)
                             for i in range(procs)], procs):
        run.merge(d)
    run.extra["core_alphabet_size"] = len(CORE)
    for d in par.map_shards(pump_shard, [(i, procs, quick, run.known)
                                         for i in range(procs)], procs):
        run.merge(d)
    fuzz_stage(run, quick)
    run.rule = (
        "Hypothesis-generated token soups over the full wikitext token "
        "alphabet, grammar documents, mutations of the repository's test "
        "pages and deep nestings (<=100), each parsed plainly / expand_all / "
        "pre_expand against a structure-emitting template library; oracle = "
        "R-tree validity predicate + empty parser stack + follow-up parse; "
        f"exhaustively, every triple over a {len(CORE)}-token core alphabet "
        "(one or two representatives of every token class; all three modes "
        "in the thorough tier, plain mode plus every 7th triple in the other "
        "modes in the quick tier); pumped inputs (every opener x 40 "
        "repetitions of every unit, and of ordered unit pairs) against a "
        f"{PARSE_BOUND_S:.0f} s bound per parse, decisive for inputs of at most "
        f"{SHORT_LEN} characters; "
        "plus coverage-guided atheris campaigns (structured token-index and "
        "raw UTF-8 decodings, empty and seeded corpus) with the same oracle "
        "inside the target. "
        "Non-trivial = input contains >= 3 distinct structural token classes; "
        "distinct by SHA-1 of (text, mode)."
    )
    run.assumptions = [
        "placeholder code points U+10203D..U+10FFF0 never occur on pages "
        "(documented in common.py) and are not generated",
        "RecursionError beyond nesting 100 is outside the property's bound",
    ]


# core interaction alphabet for the exhaustive n-gram stage: one or two
# representatives of every token class the tokenizer distinguishes
CORE = [
    "[[a]]", "[[a]]s", "[[a|b]]", "b", " ", "\n", "<noinclude/>", "<nowiki/>", "{{t}}",
    "{{t|x}}", "''", "'''", "{|", "|}", "\n|-", "|", "||", "!", "\n*", "\n#",
    "\n:", "\n;", "==", "<b>", "</b>", "<span>", "</span>", "<br>", "<pre>",
    "</pre>", "[http://x.org t]", "http://x.org", "\n----", "<!-- c -->",
    "{{{1}}}", "[", "]", "[[", "]]", "{{", "}}", "<ref>", "</ref>", "__TOC__",
    "<section begin=x/>", "&amp;", "-{", "}-", "\n ", "<li>", "</div>",
    "</ b>", "<b >",
]


def ngram_shard(idx, nshards, stride, known):
    """Every triple of core tokens (plain mode; expand_all / pre_expand for
    every stride-th), parsed and checked."""
    import itertools

    from vlib.run import sig_matches

    env.setup()
    part = Part()
    ctx = make_ctx()
    buckets = {}
    n = 0
    try:
        for tri in itertools.product(CORE, repeat=3):
            n += 1
            if n % nshards != idx:
                continue
            text = "".join(tri)
            modes = ["plain"]
            if (n // nshards) % stride == 0:
                modes += ["expand_all", "pre_expand"]
            nt = len(soup.struct_classes(text)) >= 3
            for mode in modes:
                r = check_one(ctx, text, mode)
                part.evaluations += 1
                if nt:
                    part.nontrivial.add(h(text + "\0" + mode))
                if r is None:
                    continue
                sig, what = r
                hit = False
                for k in known:
                    if sig_matches(k["signature"], sig):
                        part.excluded[k["id"]] += 1
                        hit = True
                if hit:
                    continue
                key = h(sig)
                if key not in buckets:
                    buckets[key] = (sig, what, {"text": text, "mode": mode})
    finally:
        ctx.close_db_conn()
    part.classes["gen:core-token-triples"] += part.evaluations
    flush_inconclusive(part)
    for sig, what, rep in buckets.values():
        part.violation(sig, what, rep)
    return part.to_dict()


def _fuzz_campaign(args):
    """One libFuzzer campaign of tools/fuzz_parse.py in a subprocess."""
    import json
    import shutil
    import subprocess
    import sys
    import tempfile

    idx, seed, runs, with_corpus = args
    d = tempfile.mkdtemp(prefix="verif-c01-fuzz-")
    try:
        corpus = d + "/corpus"
        import os

        os.makedirs(corpus)
        if with_corpus:
            for i, t in enumerate(mut.seeds()[:40]):
                with open(f"{corpus}/seed{i}", "wb") as f:
                    f.write(b"\x05" + t.encode("utf-8")[:400])
        out = d + "/violation.json"
        r = subprocess.run(
            [sys.executable, str(env.VERIF / "tools" / "fuzz_parse.py"), out,
             f"-runs={runs}", f"-seed={seed * 100 + idx + 1}", "-max_len=300",
             "-timeout=30", corpus],
            capture_output=True, text=True, timeout=3600)
        log = r.stderr + r.stdout
        done = re.search(r"Done (\d+) runs", log)
        n = int(done.group(1)) if done else 0
        cov = re.findall(r"cov: (\d+)", log)
        res = {"runs": n, "cov": int(cov[-1]) if cov else 0,
               "corpus": len(os.listdir(corpus)), "rc": r.returncode,
               "with_corpus": with_corpus}
        if os.path.exists(out):
            res["violation"] = json.load(open(out))
        elif r.returncode not in (0,) and not done:
            res["error"] = log[-400:]
        return res
    finally:
        shutil.rmtree(d, ignore_errors=True)


def fuzz_stage(run, quick):
    """Coverage-guided campaign (atheris) with the same oracle inside the
    target; both an empty corpus and a corpus of the repository's test pages."""
    try:
        import atheris  # noqa: F401
    except Exception as e:  # optional tool: recorded, not an error
        run.extra["atheris"] = f"unavailable: {e!r}"[:120]
        return
    # the seeded corpus (real page fragments) makes executions ~10x slower
    if quick:
        jobs = [(0, run.seed, 12000, False), (1, run.seed, 2500, True)]
    else:
        jobs = [(i, run.seed, 80000 if i % 2 else 400000, i % 2 == 1)
                for i in range(8)]
    res = par.map_shards(_fuzz_campaign, [(j,) for j in jobs],
                         min(len(jobs), par.nprocs(run.tier)))
    total = sum(r["runs"] for r in res)
    run.evaluations += total
    run.classes["gen:atheris"] += total
    run.section("atheris", campaigns=len(res), executions=total,
                final_corpus_sizes=[r["corpus"] for r in res],
                coverage_edges=[r["cov"] for r in res],
                errors=[r["error"] for r in res if "error" in r])
    for r in res:
        v = r.get("violation")
        if v:
            run.violation(v["signature"], "atheris: " + v["what"],
                          {"text": v["text"], "mode": v["mode"]})


def replay(run, case):
    ctx = make_ctx()
    try:
        r = check_one(ctx, case["text"], case["mode"])
    finally:
        ctx.close_db_conn()
    run.case(h(case["text"] + "\0" + case["mode"]), True,
             sample={"text": case["text"][:300], "mode": case["mode"]})
    if r is not None:
        run.violation(r[0], r[1], case)
