"""C13 — selective expansion expands exactly the selected templates and
honours the hooks (DESIGN 5/C13)."""

from hypothesis import strategies as st

from fixtures import lua_modules
from gens import exp
from refs import transclude as rt
from vlib import env, hyp, par
from vlib.bucket import exc_bucket, exc_text
from vlib.run import Part, h, sig_matches

NAMES = exp.TEMPLATE_NAMES
PADS = ["", "", " ", "  "]  # no newline pads: see DESIGN C13 guards


def invoke_strategy(sub):
    # atoms-only arguments: a disabled #invoke is re-emitted verbatim
    inv = st.tuples(st.sampled_from(["a", "x y", "Bar", "1"])).map(
        lambda t: ["INV", "echo", "f", [["pos", [["T", t[0]]]]]]
    )
    # text-only #if: a disabled parser function is re-emitted verbatim
    word = st.sampled_from(["a", "", "x", "Bar"])
    branch = st.sampled_from(["y", " y ", "n o", "* m", ""])
    iff = st.tuples(word, branch, branch).map(
        lambda t: ["IF", [["T", t[0]]] if t[0] else [], [["T", t[1]]] if t[1]
                   else [], [["T", t[2]]] if t[2] else []]
    )
    return st.one_of(inv, iff)


def subset():
    return st.none() | st.lists(st.sampled_from(NAMES + ["nope"]), unique=True,
                                max_size=4)


CONF = st.fixed_dictionaries({
    "pre_expand": st.booleans(),
    "to_expand": subset(),
    "not_expand": subset(),
    "flags": st.lists(st.sampled_from(NAMES), unique=True, max_size=3),
    "expand_parserfns": st.booleans(),
    "expand_invoke": st.booleans(),
    "template_fn": st.sampled_from([None, "none", "marker", "marker"]),
    "post_template_fn": st.sampled_from([None, "none", "marker"]),
    "mark_names": st.lists(st.sampled_from(NAMES + ["nope"]), unique=True,
                           max_size=3),
    "mark_mod": st.integers(1, 3),
})


def selection(lib, conf):
    """The documented rule (expand() docstring / check_template_need_expand)."""
    if not conf["pre_expand"]:
        return None
    te, tn = conf["to_expand"], conf["not_expand"]
    flagged = set(conf["flags"])

    def sel(name):
        if name not in lib:
            return False
        ok = name in flagged or (te is not None and name in te)
        if tn is not None and name in tn:
            ok = False
        return ok

    return sel


def tfn_model(conf):
    if conf["template_fn"] is None:
        return None

    def f(name, args, idx):
        if (conf["template_fn"] == "marker" and name in conf["mark_names"]
                and idx % conf["mark_mod"] == 0):
            return f"[TF {name} #{idx}]"
        return None

    return f


def pfn_model(conf):
    if conf["post_template_fn"] is None:
        return None

    def f(name, args, t, idx):
        if (conf["post_template_fn"] == "marker" and name in conf["mark_names"]
                and idx % 2 == 0):
            return f"[PF {name} #{idx} len{len(t)}]"
        return None

    return f


def invoke_model(it, n, frame, selective):
    # #invoke is itself a parser function: both switches must be on
    if not it.expand_invoke or not it.expand_pfn:
        return exp.render_node(n)
    a = n[3]
    v = it.eval_seq(a[0][1], frame) if a else ""
    return "<" + v + ">"


def plain_only(seq):
    """True when the page is built from text, calls and links only."""
    for n in seq:
        if n[0] in ("T",):
            continue
        if n[0] == "L":
            if not all(plain_only(s) for s in n[1]):
                return False
            continue
        if n[0] == "C":
            for a in n[2]:
                if not plain_only(a[1] if a[0] == "pos" else a[2]):
                    return False
            continue
        return False
    return True


def run_case(lib, page, conf):
    text = exp.render(page)
    sel = selection(lib, conf)
    log_ref = []
    tf, pf = tfn_model(conf), pfn_model(conf)
    try:
        it = rt.Interp(lib, selected=sel, template_fn=tf, post_template_fn=pf,
                       invoke_fn=invoke_model,
                       expand_pfn=conf["expand_parserfns"])
        it.expand_invoke = conf["expand_invoke"]
        want = it.finish(it.eval_seq(page, None, conf["pre_expand"]))
    except rt.OutOfDomain as e:
        return "ood", str(e), None, text
    except rt.Budget as e:
        return "ood", "budget", None, text
    ctx = env.new_ctx()
    calls = []
    posts = []
    try:
        exp.install(ctx, lib, {n: True for n in conf["flags"]})
        lua_modules.install(ctx)
        ctx.start_page("Test page")

        def template_fn(name, ht):
            idx = len(calls)
            calls.append((name, dict(ht)))
            return tf(name, ht, idx) if tf else None

        def post_template_fn(name, ht, t):
            # the index of the matching template_fn call
            idx = None
            for i in range(len(calls) - 1, -1, -1):
                if calls[i][0] == name and calls[i][1] == ht:
                    idx = i
                    break
            posts.append((name, dict(ht), t))
            if idx is None or pf is None:
                return None
            return pf(name, ht, t, idx)

        kw = dict(pre_expand=conf["pre_expand"],
                  expand_parserfns=conf["expand_parserfns"],
                  expand_invoke=conf["expand_invoke"])
        if conf["to_expand"] is not None:
            kw["templates_to_expand"] = set(conf["to_expand"])
        if conf["not_expand"] is not None:
            kw["templates_to_not_expand"] = set(conf["not_expand"])
        # a call log is needed for assertion (3) whenever hooks are modelled
        if conf["template_fn"] is not None:
            kw["template_fn"] = template_fn
        if conf["post_template_fn"] is not None:
            if conf["template_fn"] is None:
                kw["template_fn"] = template_fn  # records only
            kw["post_template_fn"] = post_template_fn
        try:
            got = ctx.expand(text, **kw)
        except Exception as e:
            return "viol", ({"kind": "exception", **exc_bucket(e)},
                            exc_text(e)), it, text
    finally:
        try:
            ctx.close_db_conn()
        except Exception:
            pass
    if got != want:
        return "viol", ({"kind": "output", "pre_expand": conf["pre_expand"]},
                        f"expand={got[:200]!r} reference={want[:200]!r}"), it, text
    if "template_fn" in kw:
        ref_log = [(n, a) for n, a in it.call_log]
        if calls != ref_log:
            return "viol", ({"kind": "template_fn-log"},
                            f"template_fn saw {calls[:6]} reference "
                            f"{ref_log[:6]}"[:400]), it, text
    nothing = (conf["pre_expand"] and not conf["expand_parserfns"]
               and not conf["expand_invoke"]
               and not any(sel(n) for n in lib))
    if nothing and plain_only(page) and got != text:
        return "viol", ({"kind": "identity"},
                        f"nothing selected but {got[:150]!r} != input "
                        f"{text[:150]!r}"), it, text
    return "ok", None, it, text


def gen_case():
    def build(pre):
        # under a selection, parser-function arguments hold text only (their
        # nested calls are outside the statement: see DESIGN C13 guards)
        return st.tuples(
            exp.case_strategy(depth=4, n_max=5, dag=True,
                              invoke=invoke_strategy, pfn=not pre,
                              nowiki=False, pads=PADS),
            CONF.map(lambda c: dict(c, pre_expand=pre)),
        )

    return st.one_of(build(True), build(True), build(False))


def classify(it, conf, lib):
    cls = []
    if conf["pre_expand"]:
        cls.append("pre_expand")
        sel = selection(lib, conf)
        ns = sum(1 for n in lib if sel(n))
        if 0 < ns < len(lib):
            cls.append("proper-subset")
        if ns == 0:
            cls.append("nothing-selected")
        if conf["to_expand"] is not None and conf["not_expand"] is not None:
            cls.append("both-sets")
            if set(conf["flags"]) & set(conf["not_expand"]):
                cls.append("flagged-in-not-expand")
    if it.stats.get("reemitted"):
        cls.append("reemitted")
    if it.stats.get("reemit_in_body"):
        cls.append("reemit-inside-selected-body")
    if it.stats.get("selected_expanded") and it.stats.get("reemitted"):
        cls.append("mixed")
    if conf["template_fn"] == "marker" or conf["post_template_fn"] == "marker":
        cls.append("hook-marker")
    if not conf["expand_parserfns"]:
        cls.append("pfn-off")
    if not conf["expand_invoke"]:
        cls.append("invoke-off")
    return cls


def shard(idx, seed, n, known):
    env.setup()
    part = Part()

    def body(case):
        (lib, page), conf = case
        if not conf["expand_parserfns"] and not conf["pre_expand"]:
            # disabled parser functions are re-emitted with raw arguments;
            # only meaningful with text-only arguments (pre_expand grammar)
            conf = dict(conf, expand_parserfns=True)
        if not conf["pre_expand"] and not conf["expand_invoke"]:
            pass
        status, detail, it, text = run_case(lib, page, conf)
        if status == "ood":
            part.excluded["ood"] += 1
            part.evaluations += 1
            return
        cls = classify(it, conf, lib)
        nontriv = ("mixed" in cls and "proper-subset" in cls) or (
            "hook-marker" in cls and it.stats["calls"] > 0)
        part.case(h([lib, page, conf]), nontriv, classes=cls,
                  sample={"page": text[:200], "conf": conf,
                          "templates": {k: exp.render(v["body"])[:100]
                                        for k, v in lib.items()}})
        if status == "viol":
            sig, what = detail
            rep = {"lib": lib, "page": page, "conf": conf}
            for k in known:
                if sig_matches(k["signature"], sig):
                    if not part.excluded[k["id"]]:
                        part.violation(sig, what, rep)
                    part.excluded[k["id"]] += 1
                    return
            raise hyp.Found(sig, what, rep)

    def body2(case):
        # the same page twice on one context: what a call leaves behind (an
        # entry on the expansion path, a memoised result) must not change the
        # second copy
        (lib, page), conf = case
        body(case)
        if page and (conf["pre_expand"] or not conf["expand_invoke"]
                     or not conf["expand_parserfns"]):
            doubled = list(page) + [["T", " SEP "]] + list(page)
            body(((lib, doubled), conf))

    f = hyp.search(gen_case(), body2, n, seed * 1000 + idx, shrink_s=40)
    if f is not None:
        part.violation(f.signature, f.what, f.replay)
    return part.to_dict()


# ------------------------------------------------- identity, full grammar
KEPT = [
    ("pfn-off", "{{#if:x|%s}}"),
    ("pfn-off-first", "{{#ifeq:%s|a|b|c}}"),
    ("invoke-off", "{{#invoke:echo|f|%s}}"),
    ("unselected", "{{tb|%s}}"),
    ("unselected-named", "{{nope|k=%s|z}}"),
    ("bare", "%s"),
]
CONTAINERS = [
    "%s", "[[%s]]", "[[a|%s]]", "[http://x.org %s]", "{{ta|%s}}",
    "{{#switch:q|q=%s}}", "'" * 3 + "%s" + "'" * 3, "<span>%s</span>",
]
INNER = ["{{tb}}", "{{#if:y|z}}", "{{{q}}}", "[[b]]", "{{#invoke:echo|f|w}}",
         "[http://y.org v]", "v"]
NOTHING = dict(pre_expand=True, expand_parserfns=False, expand_invoke=False)


def squash(s):
    return "".join(s.split())


def identity_check(ctx, text, kw):
    from refs import tree as rtree

    ctx.start_page("Test page")
    try:
        got = ctx.expand(text, **kw)
    except Exception as e:
        return ({"kind": "exception", "stage": "identity", **exc_bucket(e)},
                exc_text(e))
    if any(rtree.has_placeholder(ch) for ch in got):
        return ({"kind": "identity", "class": "placeholder-in-output"},
                f"expand({text[:150]!r}) = {got[:150]!r}")
    if squash(got) != squash(text):
        return ({"kind": "identity", "class": "content"},
                f"nothing selected but expand({text[:150]!r}) = {got[:150]!r}")
    return None


def identity_shard(idx, nshards, seed, n_random, known):
    """With nothing selected (pre_expand, no flag, both switches off) every
    page comes back unchanged up to blanks (a kept parser function is written
    back with its first argument trimmed), whatever is nested in what."""
    import itertools

    env.setup()
    part = Part()
    ctx = env.new_ctx()
    lua_modules.install(ctx)
    for nm in NAMES:
        ctx.add_page("Template:" + nm, 10, "B{{{1|}}}")
    buckets = {}

    def one(text, kw, origin):
        r = identity_check(ctx, text, kw)
        part.case(h(["identity", text, sorted(kw)]), text.count("{{") >= 2,
                  classes=["identity:" + origin], sample={"page": text[:200]})
        if r is None:
            return
        sig, what = r
        if any(sig_matches(k["signature"], sig) for k in known):
            part.excluded["known"] += 1
            return
        key = h(sig)
        if key not in buckets or len(text) < len(buckets[key][2]["text"]):
            buckets[key] = (sig, what, {"identity": True, "text": text,
                                        "kw": {k: (sorted(v) if isinstance(
                                            v, set) else v)
                                               for k, v in kw.items()}})

    kws = [NOTHING, dict(NOTHING, templates_to_expand=set()),
           dict(NOTHING, templates_to_not_expand=set(NAMES))]
    j = 0
    for (kn, kept), c1, c2, inner in itertools.product(KEPT, CONTAINERS,
                                                       CONTAINERS, INNER):
        j += 1
        if j % nshards != idx:
            continue
        one(kept % (c1 % (c2 % inner)), kws[j // nshards % 3], "enumerated")

    page = exp.seq_strategy(NAMES, 3, False, _full_invoke, max_items=4,
                            pfn=True, nowiki=False)

    def body(seq):
        text = exp.render(seq)
        if "{{{" in text and "|" in text[text.index("{{{"):]:
            # a page-level {{{p|default}}} is replaced by its default (C04)
            part.excluded["identity: page-level argument default"] += 1
            return
        one(text, NOTHING, "random")

    hyp.search(page, body, n_random, seed * 1000 + 700 + idx, shrink=False)
    try:
        ctx.close_db_conn()
    except Exception:
        pass
    for sig, what, rep in buckets.values():
        part.violation(sig, what, rep)
    return part.to_dict()


def _full_invoke(sub):
    arg = st.one_of(sub.map(lambda s: ["pos", s]),
                    st.tuples(st.sampled_from(["k", "1"]), sub).map(
                        lambda t: ["named", t[0], t[1], ["", "", "", ""]]))
    return st.lists(arg, max_size=3).map(lambda a: ["INV", "echo", "f", a])


# ------------------------------------------------- calls in name position
NAME_LIB = {
    "ta": {"body": [["T", "tb"]], "wrapper": "plain", "junk": ""},
    "tb": {"body": [["T", "B["], ["P", "1", [["T", ""]]], ["T", "]"]],
           "wrapper": "plain", "junk": ""},
    "Tc": {"body": [["T", "nope"]], "wrapper": "plain", "junk": ""},
    "te": {"body": [["T", "t"]], "wrapper": "plain", "junk": ""},
}
_SP = ["T", " "]   # four braces in a row are a different construct
NAME_SEQS = [
    [_SP, ["C", "ta", []], _SP],                          # -> tb
    [_SP, ["C", "Tc", []], _SP],                          # -> nope (missing)
    [_SP, ["C", "te", []], ["T", "b"]],                   # -> tb, half computed
    [["T", "t"], ["C", [_SP, ["C", "Tc", []], _SP], []]],  # t + missing link
    [_SP, ["IF", [["T", "1"]], [["T", "tb"]], None], _SP],
    [_SP, ["IF", [["T", ""]], [["T", "x"]], [["T", "Tc"]]], _SP],
    # name of a name: -> ta -> tb
    [_SP, ["C", [_SP, ["C", "te", []], ["T", "a"]], []], _SP],
]
NAME_SELECTIONS = [None, [], ["ta"], ["tb"], ["ta", "tb"], ["ta", "te"],
                   ["Tc"], ["ta", "tb", "Tc", "te"]]


def name_position_cases():
    """A call whose name part is produced by a call / parser function, under
    every selection: the inner construct is expanded or kept by the same rule
    as anywhere else, and the outer call is looked up under the resulting
    name."""
    for nseq in NAME_SEQS:
        for args in ([], [["pos", [["T", "x"]]]],
                     [["named", "1", [["C", "ta", []]], ["", "", "", ""]]]):
            page = [["T", "a"], ["C", nseq, args], ["T", "z"]]
            for sel in NAME_SELECTIONS:
                for pfn_on in (True, False):
                    for hook in (None, "marker"):
                        conf = {
                            "pre_expand": sel is not None, "to_expand": sel,
                            "not_expand": None, "flags": [],
                            "expand_parserfns": pfn_on or sel is None,
                            "expand_invoke": True, "template_fn": hook,
                            "post_template_fn": None,
                            "mark_names": ["ta", "tb"], "mark_mod": 1}
                        yield NAME_LIB, page, conf


def name_shard(idx, nshards, known):
    env.setup()
    part = Part()
    buckets = {}
    for j, (lib, page, conf) in enumerate(name_position_cases()):
        if j % nshards != idx:
            continue
        if not conf["expand_parserfns"] and any(
                x[0] == "IF" for x in page[1][1] if isinstance(x, list)):
            # a switched-off parser function in name position is written
            # back verbatim; the name is then not a template name at all
            part.excluded["name-position: parser function switched off"] += 1
            continue
        status, detail, it, text = run_case(lib, page, conf)
        if status == "ood":
            part.excluded["ood"] += 1
            continue
        part.case(h(["name-position", page, conf]), conf["pre_expand"],
                  classes=["name-position"] + (
                      ["name-position:reemitted"]
                      if it.stats.get("reemitted") else []),
                  sample={"page": text, "conf": conf})
        if status == "viol":
            sig, what = detail
            sig = dict(sig, stage="name-position")
            if any(sig_matches(k["signature"], sig) for k in known):
                part.excluded["known"] += 1
                continue
            key = h(sig)
            if key not in buckets or len(text) < buckets[key][3]:
                buckets[key] = (sig, what, {"lib": lib, "page": page,
                                            "conf": conf}, len(text))
    for sig, what, rep, _ in buckets.values():
        part.violation(sig, what, rep)
    return part.to_dict()


def run(run):
    procs = par.nprocs(run.tier)
    shards, n = (procs, 400) if run.tier == "quick" else (16, 25000)
    for d in par.map_shards(shard, [(i, run.seed, n, run.known)
                                    for i in range(shards)], procs):
        run.merge(d)
    for d in par.map_shards(name_shard, [(i, procs, run.known)
                                         for i in range(procs)], procs):
        run.merge(d)
    n_id = 150 if run.tier == "quick" else 6000
    for d in par.map_shards(identity_shard,
                            [(i, procs, run.seed, n_id, run.known)
                             for i in range(procs)], procs):
        run.merge(d)
    run.rule = (
        "Name-position stage: calls whose name part is produced by a call, a "
        "parser function or a call with a computed name, x every selection x "
        "switches x hook, against the reference. "
        "Identity stage: with nothing selected (pre_expand, no flags, "
        "expand_parserfns / expand_invoke off) the output equals the input up "
        "to blanks and holds no placeholder character - every kept-call kind x "
        "two nested containers (links, external links, calls, switch branches, "
        "bold, elements) x inner construct, and Hypothesis pages from the full "
        "expansion grammar (parser functions and #invoke with nested calls and "
        "links in their arguments). " 
        "Hypothesis-generated (DAG template library with inclusion wrappers, "
        "page, configuration) triples: configuration = pre_expand, "
        "templates_to_expand / templates_to_not_expand subsets (or None), "
        "need_pre_expand flags, expand_parserfns, expand_invoke, template_fn / "
        "post_template_fn returning None or a unique marker per (name, call "
        "index). Oracle: R-transclude with the documented selection rule "
        "(output equality; template_fn call log equality = each expanded call "
        "seen exactly once with its final argument map; identity when nothing "
        "is selected); under a selection every page is also evaluated doubled "
        "(page SEP page) on the same context. Non-trivial = proper non-empty selection with both an "
        "expanded and a re-emitted call, or a hook that returned a marker; "
        "distinct by hash of the triple."
    )
    run.assumptions = [
        "under pre_expand=True parser-function / #invoke arguments hold text "
        "only (nested calls inside parser-function arguments are fully "
        "expanded by design and not covered by the statement)",
        "named-argument padding without newlines; no nowiki in C13 pages",
        "default language/project (en, wiktionary)",
    ]
    run.trusted_base = ["refs/transclude.py", "fixtures/lua/* stand-ins"]


def replay(run, case):
    if case.get("identity"):
        env.setup()
        ctx = env.new_ctx()
        lua_modules.install(ctx)
        for nm in NAMES:
            ctx.add_page("Template:" + nm, 10, "B{{{1|}}}")
        kw = {k: (set(v) if isinstance(v, list) else v)
              for k, v in case["kw"].items()}
        r = identity_check(ctx, case["text"], kw)
        ctx.close_db_conn()
        run.case(h(["identity", case["text"]]), True,
                 sample={"page": case["text"][:200]})
        if r is not None:
            run.violation(r[0], r[1], case)
        return
    status, detail, it, text = run_case(case["lib"], case["page"], case["conf"])
    run.case(h([case["lib"], case["page"], case["conf"]]), True,
             sample={"page": text[:200]})
    if status == "viol":
        run.violation(detail[0], detail[1], case)
