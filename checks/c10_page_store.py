"""C10 — the page store returns the latest version under every spelling."""

import itertools
import os
import tempfile

from hypothesis import strategies as st
from hypothesis.stateful import RuleBasedStateMachine, rule, run_state_machine_as_test
from hypothesis import seed as hseed

from refs.store import NS, Store
from vlib import env, hyp, par
from vlib.bucket import exc_bucket, exc_text
from vlib.run import Part, h, sig_matches

BASES = ["Foo", "foo", "Foo bar", "FOO", "Éa", "éa", "A:b"]
NSIDS = [0, 10, 828, 4, 110]
BODIES = ["B1", "v2 text", "x<noinclude>doc</noinclude>y",
          "<includeonly>Z</includeonly>", "junk<onlyinclude>O</onlyinclude>k",
          "c<!-- gone -->d", ""]
MODELS = ["wikitext", "Scribunto", "json", None]


def spellings(ns_model, base, ns):
    """(label, spelling) variants for reading (base, ns)."""
    out = [("canonical", (ns_model.prefix(ns) if ns else "") + base)]
    if ns:
        d = ns_model.by_id[ns]
        out.append(("no-prefix", base))
        out.append(("lower-prefix", d["name"].lower() + ":" + base))
        out.append(("upper-prefix", d["name"].upper() + ":" + base))
        for a in d["aliases"][:1]:
            out.append(("alias", a + ":" + base))
            out.append(("alias-lower", a.lower() + ":" + base))
        if d["key"] != d["name"]:
            out.append(("key", d["key"] + ":" + base))
        if base[:1].isupper():
            lf = base[:1].lower() + base[1:]
            out.append(("lower-first", d["name"] + ":" + lf))
            out.append(("lower-first-no-prefix", lf))
    else:
        out.append(("main-prefix", "Main:" + base))
    if " " in base:
        out += [(lab + "+underscore", s.replace(" ", "_")) for lab, s in list(out)]
    return out


def rec_of_page(p):
    if p is None:
        return None
    return {"title": p.title, "namespace_id": p.namespace_id, "body": p.body,
            "redirect_to": p.redirect_to, "model": p.model}


class Harness:
    """Applies operations to the real store and the model; compares."""

    def __init__(self):
        env.setup()
        self.dir = tempfile.mkdtemp(prefix="verif-c10-")
        self.path = os.path.join(self.dir, "db.sqlite")
        self.ctx = env.new_ctx(self.path)
        self.nsm = NS(self.ctx.NAMESPACE_DATA)
        self.model = Store(self.nsm)
        self.ops = []
        self.read_keys = set()
        self.written_since_read = set()
        self.flags = set()
        self.ctx.start_page("Test")

    def close(self):
        import shutil

        try:
            self.ctx.close_db_conn()
        except Exception:
            pass
        shutil.rmtree(self.dir, ignore_errors=True)

    def fail(self, kind, what, **sig):
        raise hyp.Found({"kind": kind, **sig}, what, {"ops": list(self.ops)})

    def guard(self, fn, *a):
        try:
            return fn(*a)
        except hyp.Found:
            raise
        except Exception as e:
            self.fail("exception", exc_text(e), **exc_bucket(e))

    # -- operations
    def add(self, base, ns, with_prefix, body, model):
        self.ops.append(["add", base, ns, with_prefix, body, model])
        title = (self.nsm.prefix(ns) + base) if (ns and with_prefix) else base
        self.guard(self.ctx.add_page, title, ns, body, None, False, model)
        self.model.add(title, ns, body, None, model)
        k = (ns, self.model.stored_title(title, ns))
        if k in self.read_keys:
            self.flags.add("write-after-read")
            self.written_since_read.add(k)

    def add_redirect(self, base, ns, target_base, with_body=None):
        self.ops.append(["redirect", base, ns, target_base, with_body])
        title = (self.nsm.prefix(ns) if ns else "") + base
        target = (self.nsm.prefix(ns) if ns else "") + target_base
        # dump ingestion stores a redirect page together with its text:
        # every other redirect row gets one, so that a reader that stops on a
        # redirect row instead of its target is visible through the body too
        self.n_redirects = getattr(self, "n_redirects", 0) + 1
        if with_body is None:
            with_body = self.n_redirects % 2 == 1
        rbody = f"#REDIRECT [[{target}]]" if with_body else None
        self.guard(self.ctx.add_page, title, ns, rbody, target)
        self.model.add(title, ns, rbody, target)
        k = (ns, self.model.stored_title(title, ns))
        if k in self.read_keys:
            self.flags.add("write-after-read")
            self.written_since_read.add(k)

    def read(self, base, ns, label, spelling, use_none_ns=False):
        self.ops.append(["read", base, ns, label, spelling, use_none_ns])
        q_ns = None if use_none_ns else ns
        if use_none_ns:
            spelling = (self.nsm.prefix(ns) if ns else "") + base
        got = rec_of_page(self.guard(self.ctx.get_page, spelling, q_ns))
        want = self.model.lookup(spelling, q_ns)
        k = (ns, self.model.stored_title(base, ns))
        if k in self.written_since_read:
            self.flags.add("read-after-write-after-read")
            self.written_since_read.discard(k)
        self.read_keys.add(k)
        if label != "canonical":
            self.flags.add("non-canonical-spelling")
        if got != want:
            self.fail("lookup", f"get_page({spelling!r}, {q_ns}) = {got} "
                      f"expected {want}", spelling=label)
        if q_ns is not None:
            ex = self.guard(self.ctx.page_exists, spelling, q_ns)
            if ex != (want is not None):
                self.fail("exists", f"page_exists({spelling!r}, {q_ns}) = {ex} "
                          f"but lookup gives {want}", spelling=label)
        gr = rec_of_page(self.guard(self.ctx.get_page_resolve_redirect,
                                    spelling, q_ns))
        wr = self.model.resolve(spelling, q_ns)
        if want is not None and want["redirect_to"] is not None:
            self.flags.add("read-through-redirect")
            t2 = self.model.lookup(want["redirect_to"], q_ns)
            if t2 is not None and t2["redirect_to"] is not None:
                self.flags.add("redirect-to-redirect")
        if gr != wr:
            self.fail("resolve", f"get_page_resolve_redirect({spelling!r}, "
                      f"{q_ns}) = {gr} expected {wr}", spelling=label)
        gb = self.guard(self.ctx.get_page_body, spelling, q_ns)
        wb = self.model.body(spelling, q_ns)
        if gb != wb:
            self.fail("body", f"get_page_body({spelling!r}, {q_ns}) = {gb!r} "
                      f"expected {wb!r}", spelling=label)

    def expand_read(self, base, lower_first):
        name = base[:1].lower() + base[1:] if lower_first else base
        self.ops.append(["expand", base, lower_first])
        if ":" in name:
            return
        got = self.guard(self.ctx.expand, "{{" + name + "}}")
        wb = self.model.body(name, 10)
        want = f"[[:Template:{name}]]" if wb is None else wb
        if got != want:
            self.fail("expand-read", f"expand('{{{{{name}}}}}') = {got!r} "
                      f"expected {want!r}")

    def commit(self):
        self.ops.append(["commit"])
        self.guard(self.ctx.db_conn.commit)
        self.model.commit()

    def fresh_scan(self):
        """A new context on the same file sees exactly the committed map."""
        self.ops.append(["fresh-scan"])
        self.flags.add("reopen")
        c2 = self.guard(env.new_ctx, self.path)   # opening may not raise
        try:
            got = {}
            for p in c2.get_all_pages():
                got[(p.namespace_id, p.title)] = rec_of_page(p)
            want = {k: v for k, v in self.model.committed.items()}
            if got != want:
                extra = sorted(set(got) - set(want))
                missing = sorted(set(want) - set(got))
                diff = [k for k in want if k in got and got[k] != want[k]]
                self.fail("reopen", f"new context: extra={extra} missing="
                          f"{missing} differing={diff}")
            for (ns, t), rec in want.items():
                g = rec_of_page(c2.get_page(t, ns))
                w = self.model.lookup(t, ns, table=self.model.committed)
                if g != w:
                    self.fail("reopen-lookup", f"new context get_page({t!r},"
                              f"{ns}) = {g} expected {w}")
        finally:
            try:
                c2.db_conn.close()
            except Exception:
                pass

    def apply(self, op):
        k = op[0]
        if k == "add":
            self.add(*op[1:])
        elif k == "redirect":
            self.add_redirect(*op[1:])
        elif k == "read":
            self.read(*op[1:])
        elif k == "expand":
            self.expand_read(*op[1:])
        elif k == "commit":
            self.commit()
        elif k == "fresh-scan":
            self.fresh_scan()


# ---------------------------------------------------------------- stateful


def make_machine(part, known):
    nsm_holder = {}

    class StoreMachine(RuleBasedStateMachine):
        def __init__(self):
            super().__init__()
            self.hx = Harness()
            nsm_holder["nsm"] = self.hx.nsm

        @rule(base=st.sampled_from(BASES), ns=st.sampled_from(NSIDS),
              wp=st.booleans(), body=st.sampled_from(BODIES),
              model=st.sampled_from(MODELS))
        def add(self, base, ns, wp, body, model):
            self.hx.add(base, ns, wp, body, model)

        @rule(base=st.sampled_from(BASES), ns=st.sampled_from(NSIDS),
              tgt=st.sampled_from(BASES))
        def redirect(self, base, ns, tgt):
            self.hx.add_redirect(base, ns, tgt)

        @rule(base=st.sampled_from(BASES), ns=st.sampled_from(NSIDS),
              i=st.integers(0, 40), none_ns=st.integers(0, 9))
        def read(self, base, ns, i, none_ns):
            sp = spellings(self.hx.nsm, base, ns)
            lab, s = sp[i % len(sp)]
            self.hx.read(base, ns, lab, s, none_ns == 0)

        @rule(base=st.sampled_from(BASES), lf=st.booleans())
        def expand_read(self, base, lf):
            self.hx.expand_read(base, lf)

        @rule()
        def commit(self):
            self.hx.commit()

        @rule()
        def fresh_scan(self):
            self.hx.fresh_scan()

        def teardown(self):
            hx = self.hx
            nontriv = ("read-after-write-after-read" in hx.flags
                       or "non-canonical-spelling" in hx.flags)
            part.case(h(hx.ops), nontriv,
                      classes=["hist:" + f for f in sorted(hx.flags)]
                      + ["len>=10"] * (len(hx.ops) >= 10),
                      sample=hx.ops[:12])
            hx.close()

    return StoreMachine


def shard_stateful(idx, seed, n, steps, known):
    env.setup()
    part = Part()
    best = {"f": None}
    M = make_machine(part, known)
    try:
        run_state_machine_as_test(
            hseed(seed * 1000 + idx)(M),
            settings=hyp.mk_settings(n, shrink=True, stateful_steps=steps),
        )
    except hyp.Found as f:
        best["f"] = f
    if best["f"] is not None:
        f = best["f"]
        part.violation(f.signature, f.what, f.replay)
    return part.to_dict()


# ---------------------------------------------------------------- exhaustive

SUB_BASES = ["Foo", "foo"]
SUB_NS = [0, 10]


def sub_ops():
    ops = []
    for b in SUB_BASES:
        for ns in SUB_NS:
            ops.append(["add", b, ns, True, "B1", "wikitext"])
            ops.append(["add", b, ns, False, "v2 text", "wikitext"])
            other = [x for x in SUB_BASES if x != b][0]
            ops.append(["redirect", b, ns, other])
            ops.append(["read", b, ns, "canonical", None, False])
            ops.append(["read", b, ns, "no-prefix", None, False])
    ops.append(["read", "Foo", 10, "lower-first-no-prefix", None, False])
    ops.append(["commit"])
    ops.append(["fresh-scan"])
    return ops


def run_sequence(seq):
    hx = Harness()
    try:
        for op in seq:
            op = list(op)
            if op[0] == "read" and op[4] is None:
                sp = dict(spellings(hx.nsm, op[1], op[2]))
                op[4] = sp.get(op[3], sp["canonical"])
            hx.apply(op)
        return None, hx
    except hyp.Found as f:
        return f, hx
    finally:
        hx.close()


def shard_exhaustive(idx, nshards, maxlen, stride, known):
    env.setup()
    part = Part()
    ops = sub_ops()
    buckets = {}
    n = 0
    for L in range(1, maxlen + 1):
        for seq in itertools.product(range(len(ops)), repeat=L):
            n += 1
            if n % nshards != idx:
                continue
            if stride > 1 and L == maxlen and (n // nshards) % stride != 0:
                continue
            kinds = [ops[i][0] for i in seq]
            if not any(k in ("read", "fresh-scan") for k in kinds):
                continue
            f, hx = run_sequence([ops[i] for i in seq])
            nontriv = ("read-after-write-after-read" in hx.flags
                       or "non-canonical-spelling" in hx.flags)
            part.case(h(list(seq)), nontriv, classes=["exhaustive:len%d" % L],
                      sample=[ops[i] for i in seq])
            if f is not None:
                known_hit = False
                for k in known:
                    if sig_matches(k["signature"], f.signature):
                        if not part.excluded[k["id"]]:
                            part.violation(f.signature, f.what, f.replay)
                        part.excluded[k["id"]] += 1
                        known_hit = True
                        break
                if not known_hit:
                    key = h(f.signature)
                    if key not in buckets or len(f.replay["ops"]) < len(
                            buckets[key].replay["ops"]):
                        buckets[key] = f
    for f in buckets.values():
        part.violation(f.signature, f.what, f.replay)
    return part.to_dict()


GRAPH_BASES = ["Foo", "foo", "Bar"]


def graph_states():
    """Every assignment of {absent, content, redirect (with / without stored
    text) to each of the three titles} to three template titles, two of which
    differ only in the case of the first letter: chains, cycles, self loops,
    redirects to case twins and to missing pages."""
    opts = [None, ("content",)]
    for t in GRAPH_BASES:
        opts += [("redirect", t, False), ("redirect", t, True)]
    return itertools.product(opts, repeat=len(GRAPH_BASES))


def shard_graph(idx, nshards, known):
    env.setup()
    part = Part()
    buckets = {}
    for n, state in enumerate(graph_states()):
        if n % nshards != idx:
            continue
        seq = []
        for b, o in zip(GRAPH_BASES, state):
            if o is None:
                continue
            if o[0] == "content":
                seq.append(["add", b, 10, True, "body of " + b, "wikitext"])
            else:
                seq.append(["redirect", b, 10, o[1], o[2]])
        for b in GRAPH_BASES:
            seq.append(["read", b, 10, "canonical", None, False])
            seq.append(["read", b, 10, "no-prefix", None, False])
        seq.append(["commit"])
        seq.append(["fresh-scan"])
        f, hx = run_sequence(seq)
        part.case(h(["graph", n]), "redirect-to-redirect" in hx.flags,
                  classes=["redirect-graph"] + sorted(
                      c for c in hx.flags if "redirect" in c),
                  sample=seq[:3])
        if f is not None:
            if any(sig_matches(k["signature"], f.signature) for k in known):
                part.excluded["known"] += 1
                continue
            key = h(f.signature)
            if key not in buckets or len(f.replay["ops"]) < len(
                    buckets[key].replay["ops"]):
                buckets[key] = f
    for f in buckets.values():
        part.violation(f.signature, f.what, f.replay)
    return part.to_dict()


def shard_spellings(idx, nshards, known):
    """Every base title x namespace, stored once (plainly, or as the target
    of a redirect page), then read through EVERY spelling the statement
    lists - the random histories sample one spelling per read."""
    env.setup()
    part = Part()
    buckets = {}
    n = 0
    nsm = None
    for base in BASES:
        for ns in NSIDS:
            for via_redirect in (False, True):
                n += 1
                if n % nshards != idx:
                    continue
                hx0 = Harness()
                try:
                    sp = spellings(hx0.nsm, base, ns)
                finally:
                    hx0.close()
                seq = [["add", base, ns, True, "body " + base, "wikitext"]]
                read_base = base
                if via_redirect:
                    other = [b for b in BASES if b != base][0]
                    seq.append(["redirect", other, ns, base, True])
                seq.append(["commit"])
                for lab, s_ in sp:
                    seq.append(["read", read_base, ns, lab, s_, False])
                if ns != 0:
                    seq.append(["read", read_base, ns, "canonical", None, True])
                seq.append(["fresh-scan"])
                f, hx = run_sequence(seq)
                part.case(h(["spellings", base, ns, via_redirect]), True,
                          classes=["all-spellings", "spellings:%d" % len(sp)],
                          sample=seq[:3])
                if f is not None:
                    if any(sig_matches(k["signature"], f.signature)
                           for k in known):
                        part.excluded["known"] += 1
                        continue
                    key = h(f.signature)
                    if key not in buckets or len(f.replay["ops"]) < len(
                            buckets[key].replay["ops"]):
                        buckets[key] = f
    for f in buckets.values():
        part.violation(f.signature, f.what, f.replay)
    return part.to_dict()


def _dispatch(fn, args):
    return fn(*args)


def run(run):
    quick = run.tier == "quick"
    procs = par.nprocs(run.tier)
    if quick:
        jobs = [(shard_exhaustive, (i, procs, 3, 1, run.known))
                for i in range(procs)]
        jobs += [(shard_stateful, (i, run.seed, 60, 30, run.known))
                 for i in range(procs)]
    else:
        jobs = [(shard_exhaustive, (i, 16, 4, 1, run.known)) for i in range(16)]
        jobs += [(shard_stateful, (i, run.seed, 1500, 40, run.known))
                 for i in range(16)]
    jobs += [(shard_graph, (i, procs, run.known)) for i in range(procs)]
    jobs += [(shard_spellings, (i, procs, run.known)) for i in range(procs)]
    for d in par.map_shards(_dispatch, jobs, procs):
        run.merge(d)
    run.exhaustive = True
    run.rule = (
        "All operation sequences up to length "
        + ("3" if quick else "4")
        + " over a 2-title x 2-namespace sub-universe with 23 concrete "
        "operations (add in two spellings, overwrite, redirect, reads through "
        "canonical / prefix-less / lower-first spellings, commit, fresh-"
        "context scan), sequences without any read skipped; every redirect "
        "graph on three template titles (two differing in first-letter case; "
        "each absent / content / redirect to any of the three, with or without "
        "stored redirect text), every title read through two spellings; every base "
        "title x namespace read through every one of its spellings; plus a Hypothesis "
        "RuleBasedStateMachine (7 base titles x 5 namespaces, up to 16 read "
        "spellings per title, bodies with inclusion control, four content "
        "models, redirects, commit, scan through a new context) to length "
        + ("30" if quick else "40")
        + ". Oracle: R-store reference model compared after every read "
        "(get_page, page_exists, get_page_resolve_redirect, get_page_body, expand of {{title}}) and "
        "against get_all_pages() of a brand-new context. Non-trivial = "
        "history with a read-after-write-after-read of one key or a read "
        "through a non-canonical spelling; distinct by hash of the operation "
        "sequence."
    )
    run.assumptions = [
        "writes use the canonical prefix or none (as dumps do); main-"
        "namespace titles never carry a namespace prefix",
        "a lookup without namespace id uses the exact stored title",
    ]
    run.trusted_base = ["refs/store.py"]


def replay(run, case):
    f, hx = run_sequence(case["ops"])
    run.case(h(case["ops"]), True, sample=case["ops"][:12])
    if f is not None:
        run.violation(f.signature, f.what, f.replay)
