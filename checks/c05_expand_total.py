"""C05 — expand() terminates and reports failures in-band (DESIGN 5/C05).

(a) template call graphs incl. cycles, against R-transclude with a loop /
    depth detector;  (b) every parser function x argument vectors."""

import itertools
import re
import resource

from hypothesis import strategies as st

from gens import exp
from refs import transclude as rt
from vlib import env, guard, hyp, par
from vlib.bucket import exc_bucket, exc_text
from vlib.run import Part, h, sig_matches

ERR = '<strong class="error">'
BOUND_S = 20.0  # per case, inputs <= 300 chars (typical < 5 ms)

# ------------------------------------------------------------------ (a)


STEP_LIMIT = 40000  # template expansions; see graph_case


class _Steps:
    """Counts template expansions through the package's own loop detector
    (harness-side wrapper of a module-level function).  A page of <= 300
    characters over <= 5 templates that needs more than STEP_LIMIT template
    expansions is on an exponential path; it is then either matched to the
    listed known finding without burning 20 s, or confirmed for real."""

    def __init__(self, limit):
        from wikitextprocessor import core

        self.core = core
        self.limit = limit
        self.n = 0
        self.orig = getattr(core, "detect_expand_template_loop", None)

    def __enter__(self):
        if self.orig is None or self.limit is None:
            return self
        orig = self.orig

        def counted(stack):
            self.n += 1
            if self.n > self.limit:
                raise guard.Watchdog()
            return orig(stack)

        self.core.detect_expand_template_loop = counted
        return self

    def __exit__(self, *a):
        if self.orig is not None:
            self.core.detect_expand_template_loop = self.orig


def graph_case(lib, page, bound=BOUND_S, step_limit=STEP_LIMIT):
    text = exp.render(page)
    try:
        want, it = rt.evaluate(page, lib, max_depth=100, fuel=200000)
        ref = "value"
    except rt.OutOfDomain as e:
        return "ood", str(e), text
    except rt.Budget as e:
        want, ref = None, "diverges:" + str(e)
    except RecursionError:
        want, ref = None, "diverges:depth"
    if want is None and ref in ("diverges:loop", "diverges:depth"):
        # Is the divergent call's value ever used?  A cycle that sits only in
        # an argument the callee never looks at produces an error element
        # that nobody sees; then the output is simply the value.
        try:
            it2 = rt.Interp(lib, max_depth=100, fuel=200000)
            it2.bottom_args = True
            out2 = it2.finish(it2.eval_seq(page, None, False))
            if rt.BOTTOM not in out2 and it2.stats.get("bottom_args"):
                want, ref, it = out2, "value-cycle-in-unused-argument", it2
        except (rt.OutOfDomain, rt.Budget, RecursionError):
            pass
    ctx = env.new_ctx()
    try:
        exp.install(ctx, lib)
        ctx.start_page("Test page")
        with _Steps(step_limit) as steps:
            status, val, el = guard.call(ctx.expand, bound, text)
        msgs = len(ctx.warnings) + len(ctx.errors)
    finally:
        try:
            ctx.close_db_conn()
        except Exception:
            pass
    if status == "timeout":
        if el < bound - 1:
            return "viol", ({"kind": "blowup-predicted", "part": "graph",
                             "class": graph_class(lib)},
                            f"> {step_limit} template expansions after "
                            f"{el:.1f}s (exponential path)"), text
        return "viol", ({"kind": "timeout", "part": "graph",
                         "class": graph_class(lib)},
                        f"expand() still running after {bound}s"), text
    if status == "exc":
        return "viol", ({"kind": "exception", "part": "graph",
                         **exc_bucket(val)}, exc_text(val)), text
    if not isinstance(val, str):
        return "viol", ({"kind": "not-str", "part": "graph"},
                        repr(type(val))), text
    if ref.startswith("diverges"):
        if msgs == 0:
            return "viol", ({"kind": "no-message", "part": "graph"},
                            f"pure semantics {ref} but no warning/error was "
                            f"recorded; output {val[:120]!r}"), text
        # The error element may legitimately be consumed by a parser function
        # (a loop inside an #if condition makes the condition non-empty), so
        # it is required in the output only when no parser function is around.
        if ERR not in val and not uses_pfn(lib, page):
            return "viol", ({"kind": "silent-cut", "part": "graph"},
                            f"pure semantics {ref} but output has no error "
                            f"element: {val[:120]!r}"), text
        if msgs == 0:
            return "viol", ({"kind": "no-message", "part": "graph"},
                            "error element without recorded warning/error"), text
        return "ok-diverges", ref, text
    if ERR not in val and val != want:
        return "viol", ({"kind": "mismatch", "part": "graph"},
                        f"expand={val[:150]!r} reference={want[:150]!r}"), text
    # "excessive depth" is the package's own limit of 100 expansion-path
    # entries (two per literal nesting level); an error is spurious only when
    # the library is acyclic and the nesting is nowhere near that limit.
    if (ERR in val and not has_cycle(lib)
            and it.stats["max_nest"] + ast_depth(page) <= 20):
        return "viol", ({"kind": "spurious-error", "part": "graph"},
                        f"acyclic library but output has error: {val[:150]!r}"),\
            text
    return "ok", ref, text


def uses_pfn(lib, page):
    def any_pfn(seq):
        for n in seq:
            if n[0] in ("IF", "IFEQ", "SW"):
                return True
            for sub in subseqs(n):
                if any_pfn(sub):
                    return True
        return False

    return any_pfn(page) or any(any_pfn(e["body"]) for e in lib.values())


def subseqs(n):
    k = n[0]
    if k == "C":
        return [a[1] if a[0] == "pos" else a[2] for a in n[2]]
    if k == "P":
        return [n[2]] if n[2] is not None else []
    if k == "L":
        return list(n[1])
    if k == "IF":
        return [s for s in n[1:4] if s is not None]
    if k == "IFEQ":
        return [s for s in n[1:5] if s is not None]
    if k == "SW":
        out = [n[1]] + [c[2] for c in n[2] if c[0] == "case"]
        if n[3] is not None:
            out.append(n[3][1])
        return out
    return []


def ast_depth(seq):
    d = 0
    for n in seq:
        subs = subseqs(n)
        if n[0] in ("C", "IF", "IFEQ", "SW", "P", "L"):
            d = max(d, 1 + max((ast_depth(s) for s in subs), default=0))
    return d


def calls_of(seq, out):
    for n in seq:
        k = n[0]
        if k == "C":
            out.add(n[1])
            for a in n[2]:
                calls_of(a[1] if a[0] == "pos" else a[2], out)
        elif k == "P" and n[2] is not None:
            calls_of(n[2], out)
        elif k == "L":
            for s in n[1]:
                calls_of(s, out)
        elif k == "IF":
            for s in n[1:4]:
                if s is not None:
                    calls_of(s, out)
        elif k == "IFEQ":
            for s in n[1:5]:
                if s is not None:
                    calls_of(s, out)
        elif k == "SW":
            calls_of(n[1], out)
            for c in n[2]:
                if c[0] == "case":
                    calls_of(c[2], out)
            if n[3] is not None:
                calls_of(n[3][1], out)
    return out


def graph_of(lib):
    return {n: {c for c in calls_of(e["body"], set()) if c in lib}
            for n, e in lib.items()}


def has_cycle(lib):
    g = graph_of(lib)
    color = {}

    def dfs(u):
        color[u] = 1
        for v in g[u]:
            if color.get(v) == 1:
                return True
            if v not in color and dfs(v):
                return True
        color[u] = 2
        return False

    return any(dfs(u) for u in list(g) if u not in color)


def graph_class(lib):
    g = graph_of(lib)
    n_cyc = sum(1 for u in g if reach(g, u, u))
    fan = max((len(v) for v in g.values()), default=0)
    if n_cyc >= 3 and fan >= 2:
        return "branching-cycle>=3"
    return f"cyc{n_cyc}-fan{fan}"


def reach(g, a, b):
    seen, todo = set(), list(g[a])
    while todo:
        u = todo.pop()
        if u == b:
            return True
        if u in seen:
            continue
        seen.add(u)
        todo.extend(g[u])
    return False


def very_deep_case(d, kind="template"):
    """Literal nesting far beyond the package's depth limit, written as text
    (the reference interpreter is itself recursive): only the package's own
    limit stands between such a page and CPython's recursion limit.  Oracle:
    a str comes back in time, with an error element and a recorded message.
    kind: nesting through template arguments, through parser-function
    arguments, through the name part of parser functions, or mixed."""
    text = "core"
    for i in range(d):
        k = kind if kind != "mixed" else ("template", "pfn-arg",
                                          "pfn-name")[i % 3]
        if k == "template":
            text = "{{tb|" + text + "}}"
        elif k == "pfn-arg":
            text = "{{#if:x|" + text + "}}"
        else:
            text = "{{lc:" + text + "}}"
    ctx = env.new_ctx()
    try:
        ctx.add_page("Template:tb", 10, "<{{{1|}}}>")
        ctx.start_page("Test page")
        status, val, el = guard.call(ctx.expand, BOUND_S, text)
        msgs = len(ctx.warnings) + len(ctx.errors)
    finally:
        try:
            ctx.close_db_conn()
        except Exception:
            pass
    base = {"part": "graph", "class": "very-deep-nesting"}
    if status == "timeout":
        return ({"kind": "timeout", **base},
                f"{kind} nesting {d}: expand() still running after {BOUND_S}s")
    if status == "exc":
        return ({"kind": "exception", **base, **exc_bucket(val)},
                f"{kind} nesting {d}: {exc_text(val)}")
    if not isinstance(val, str):
        return ({"kind": "not-str", **base}, repr(type(val)))
    if ERR not in val or msgs == 0:
        return ({"kind": "silent-cut", **base},
                f"{kind} nesting {d}: no in-band error / message: {val[:100]!r}")
    return None


NEST_KINDS = ("name", "arg-known", "arg-unknown", "link", "default",
              "pfn-first", "pfn-branch", "pfn-name", "mixed")
NEST_MODES = ("all", "pre_expand", "only", "except", "no-parserfns")


def nest_text(d, kind):
    text = "core"
    for i in range(d):
        k = kind if kind != "mixed" else NEST_KINDS[i % (len(NEST_KINDS) - 1)]
        if k == "pfn-first":
            text = "{{#if:" + text + "|y|n}}"
        elif k == "pfn-branch":
            text = "{{#ifeq:a|a|" + text + "|n}}"
        elif k == "pfn-name":
            text = "{{uc:" + text + "}}"
        elif k == "name":
            text = "{{ " + text + " }}"
        elif k == "arg-known":
            text = "{{tb|" + text + "}}"
        elif k == "arg-unknown":
            text = "{{nosuch|" + text + "|k=" + ("v" if i % 2 else text[:0]) + "}}"
        elif k == "link":
            text = "[[a|" + text + "]]"
        else:
            text = "{{{nosucharg|" + text + "}}}"
    return text


def nested_case(d, kind, mode):
    """Calls nested to depth d <= 100 in every syntactic position (name part,
    argument of a known / unknown template, link text, argument default) under
    every expansion mode: a str must come back within the bound.  The work per
    level must not multiply: a position that is expanded twice per level costs
    2**d."""
    text = nest_text(d, kind)
    ctx = env.new_ctx()
    kw = {"all": {}, "pre_expand": {"pre_expand": True},
          "only": {"pre_expand": True, "templates_to_expand": {"other"}},
          "except": {"pre_expand": True, "templates_to_expand": {"tb", "other"},
                     "templates_to_not_expand": {"tb"}},
          "no-parserfns": {"pre_expand": True, "expand_parserfns": False}}[mode]
    try:
        ctx.add_page("Template:tb", 10, "<{{{1|}}}>")
        ctx.add_page("Template:other", 10, "o")
        ctx.start_page("Test page")
        status, val, el = guard.call(ctx.expand, BOUND_S, text, **kw)
    finally:
        try:
            ctx.close_db_conn()
        except Exception:
            pass
    base = {"part": "graph", "class": "nested-positions", "mode": mode}
    if status == "timeout":
        return ({"kind": "timeout", **base},
                f"{kind} nesting {d}, mode {mode}: expand() still running "
                f"after {BOUND_S}s")
    if status == "exc":
        return ({"kind": "exception", **base, **exc_bucket(val)},
                f"{kind} nesting {d}, mode {mode}: {exc_text(val)}")
    if not isinstance(val, str):
        return ({"kind": "not-str", **base}, repr(type(val)))
    return None


PFN_PUMP_OPENERS = ["{{#expr:", "{{#ifexpr:", "{{#time:", "{{#time:Y|",
                    "{{formatnum:", "{{#titleparts:", "{{#replace:a|",
                    "{{#sub:", "{{padleft:x|", "{{urlencode:", "{{#tag:ref|",
                    "{{#switch:", "{{plural:", "{{#rel2abs:", "{{lc:",
                    "{{#explode:", "{{#pos:", "{{fullurl:", "{{#language:",
                    "{{anchorencode:", "{{#iferror:", "{{ns:", "{{#len:"]
PFN_PUMP_UNITS = ["1", "9", "0", "+", "-", "*", "/", "^", "e", "1e", "E9", ".",
                  ",", "(", ")", " ", "not ", "round ", "mod ", "and ", "=",
                  "<", ">", "!", "a", "'", '"', "\\", ":", ";", "%", "&amp;",
                  "&", "#", "<b>", "[[a]]", "[", "]", "{", "}", "-{}-",
                  "{{{1}}}", "|", "|a=", "\n", "é", "../", "./", "_", "~"]


def pfn_pump_cases(quick):
    import itertools

    for o in PFN_PUMP_OPENERS:
        for u in PFN_PUMP_UNITS:
            yield o + u * 40 + "}}"
    pair = PFN_PUMP_UNITS[:14] if quick else PFN_PUMP_UNITS[:30]
    for o in PFN_PUMP_OPENERS[: 6 if quick else len(PFN_PUMP_OPENERS)]:
        for a, b in itertools.permutations(pair, 2):
            yield o + (a + b) * 20 + "}}"


def redirect_cases():
    """Template sets in which calls go through redirect pages: to a real
    template, to a missing one, to another redirect, to itself, in a cycle of
    two and three, to a case twin - called bare, with arguments, inside a
    parser-function branch and from another template's body."""
    sets = {
        "to-real": {"ra": "=>tb"},
        "to-missing": {"ra": "=>nosuch"},
        "to-self": {"ra": "=>ra"},
        "cycle-2": {"ra": "=>rb", "rb": "=>ra"},
        "cycle-3": {"ra": "=>rb", "rb": "=>rc", "rc": "=>ra"},
        "chain-to-real": {"ra": "=>rb", "rb": "=>tb"},
        "chain-to-missing": {"ra": "=>rb", "rb": "=>nosuch"},
        "case-twin": {"Cap": "=>cap"},
        "twin-cycle": {"Cap": "=>cap", "cap": "=>Cap"},
    }
    pages = ["{{%s}}", "{{%s|x|k=v}}", "{{#if:1|{{%s}}|n}}", "{{tw|%s}}",
             "{{%s}}{{%s}}", "[[a|{{%s}}]]"]
    for sname, pg in sets.items():
        first = next(iter(pg))
        for pt in pages:
            yield sname, pg, pt.replace("%s", first)


def redirect_case(sname, pg, text):
    ctx = env.new_ctx()
    try:
        ctx.add_page("Template:tb", 10, "<{{{1|}}}>")
        ctx.add_page("Template:tw", 10, "w{{ {{{1}}} }}w")
        for name, body in pg.items():
            ctx.add_page("Template:" + name, 10, None,
                         redirect_to="Template:" + body[2:])
        ctx.start_page("Test page")
        status, val, el = guard.call(ctx.expand, BOUND_S, text)
    finally:
        try:
            ctx.close_db_conn()
        except Exception:
            pass
    base = {"part": "graph", "class": "redirect-pages", "set": sname}
    if status == "timeout":
        return ({"kind": "timeout", **base},
                f"{sname}: expand({text!r}) still running after {BOUND_S}s")
    if status == "exc":
        return ({"kind": "exception", **base, **exc_bucket(val)},
                f"{sname}: expand({text!r}): {exc_text(val)}")
    if not isinstance(val, str):
        return ({"kind": "not-str", **base}, repr(type(val)))
    return None


def small_graph_cases():
    """All call graphs on <=3 templates (adjacency incl. self loops), each
    edge realised as a plain call in the body; page calls template 0."""
    names = exp.TEMPLATE_NAMES[:3]
    out = []
    for n in (1, 2, 3):
        ns = names[:n]
        edges = [(a, b) for a in ns for b in ns]
        for mask in range(1 << len(edges)):
            lib = {}
            for a in ns:
                body = [["T", a + "("]]
                for i, (x, y) in enumerate(edges):
                    if x == a and mask >> i & 1:
                        body.append(["C", y, []])
                body.append(["T", ")"])
                lib[a] = {"body": body, "wrapper": "plain", "junk": ""}
            out.append((lib, [["C", ns[0], []]]))
    return out


def variant_graph_cases():
    """Cycles through arguments, defaults and parser-function branches."""
    out = []
    t = lambda s: ["T", s]  # noqa: E731
    for via in ("arg", "named", "default", "if-then", "if-cond", "switch",
                "growing-arg", "bounded"):
        if via == "arg":
            body = [t("x"), ["C", "tb", [["pos", [["C", "ta", []]]]]]]
        elif via == "named":
            body = [["C", "tb", [["named", "k", [["C", "ta", []]],
                                  ["", "", "", ""]]]]]
        elif via == "default":
            body = [["P", "zz", [["C", "ta", []]]]]
        elif via == "if-then":
            body = [["IF", [t("1")], [["C", "ta", []]], None]]
        elif via == "if-cond":
            body = [["IF", [["C", "ta", []]], [t("y")], None]]
        elif via == "switch":
            body = [["SW", [t("a")], [["case", "a", [["C", "ta", []]]]], None]]
        elif via == "growing-arg":
            body = [["C", "ta", [["pos", [["P", "1", [t("")]], t("x")]]]]]
        else:  # bounded recursion: stops when the parameter is set
            body = [["IF", [["P", "1", []]], [t("stop")],
                     [["C", "ta", [["pos", [t("go")]]]]]]]
        lib = {
            "ta": {"body": body, "wrapper": "plain", "junk": ""},
            "tb": {"body": [t("<"), ["P", "1", [t("")]], ["P", "k", [t("")]],
                            t(">")], "wrapper": "plain", "junk": ""},
        }
        out.append((lib, [["C", "ta", []]]))
        if via not in ("growing-arg", "bounded"):
            # the same cycle entered twice (three times) per body: harmless
            # while the loop is detected at its first repetition, 2**depth
            # (3**depth) expansions when only the depth limit stops it
            for times in (2, 3):
                lib2 = dict(lib)
                lib2["ta"] = dict(lib["ta"], body=[x for _ in range(times)
                                                   for x in body])
                out.append((lib2, [["C", "ta", []]]))
    # literal nesting to depth 100 and 150 of one acyclic template
    for d in (10, 50, 99, 120, 150):
        page = [t("core")]
        for _ in range(d):
            page = [["C", "tb", [["pos", page]]]]
        lib = {"tb": {"body": [["P", "1", None]], "wrapper": "plain",
                      "junk": ""}}
        out.append((lib, page))
    # chain of d distinct-depth calls through one template taking a counter
    return out


# ------------------------------------------------------------------ (b)

POOL = {
    "empty": [""],
    "blank": [" ", "\n", " \n "],
    "int": ["0", "1", "2", "10", "-1", "007"],
    "real": ["1.5", "-0.5", ".5", "1.", "1e3", "1e400", "1e-400"],
    "bigint": ["99999999999999999999", "-99999999999999999999",
               "123456789012"],
    "word": ["abc", "Foo bar", "a"],
    "op": ["(", ")", "=", "+", "-", "*", "/", "^", "!=", "mod", "round",
           "e", "pi", ".", ","],
    "named": ["a=b", "1=x", "=v", "k="],
    "default": ["#default", "#default=x"],
    "title": ["Talk:X", "Template:Y/z", "Special:Foo", "Nope:Q", "a/b/c",
              "..", "../..", "./a", "/a", "a/../../b", "::", ":", "Main:x",
              "Module:M", "User talk:U", "T:a"],
    "unicode": ["é", "日本", "ß", "İ", "ǆ", "‏", "𝔘"],
    "markup": ["[[a|b]]", "<b>x</b>", "{{{1}}}", "<nowiki>x</nowiki>",
               "&amp;", "%41%zz", "a b_c", "''i''", "\x7fUNIQ"],
    "long": ["x" * 10000, "9" * 400, "1 " * 2000],
    "nested-empty": ["{{#if:||}}", "{{#if:1|}}"],
    "date": ["2020-01-01", "now", "31 February 2021", "@0", "tomorrow",
             "99999999999", "YmdHis", "xx", "j F Y"],
    "lang": ["en", "fi", "zz", "R", "NOSEP", "PATH", "QUERY", "WIKI"],
}
HAPPY = {"word", "int"}
EXCLUDE_FNS = {"#property", "#statements"}
TITLES = ["Test", "Talk:Foo", "Template:Bar/baz", "Module:M", "User talk:U/s",
          "Special:S", "Media:F.png", "Nope:X", "a/b/c", "Thesaurus:dog",
          "Wiktionary:Main", "Category talk:C", "Reconstruction:X/y",
          "Appendix talk:A", "MediaWiki:m", "Ä", "a:b:c", "/", ":x"]
EXPR_TOKENS = [
    "1", "2", "0", "10", "1.5", ".5", "1e3", "1e400", "99999999999999999999",
    "+", "-", "*", "/", "^", "div", "mod", "round", "e", "pi", "(", ")", "=",
    "!=", "<>", "<", ">", "<=", ">=", "and", "or", "not", "ceil", "trunc",
    "floor", "abs", "sqrt", "exp", "ln", "sin", "cos", "tan", "acos", "asin",
    "atan", ".", ",", "x", "1000", "-", "(", ")", " ",
    # large magnitudes: float overflow to inf / nan happens without a Python
    # exception (1.5e200 * 1.5e200), huge ints only fail when formatted
    "1.5e200", "1e308", "9.9e307", "1.5e200 * 1.5e200", "1e400 * 1e400",
    "200", "308", "400", "4300", "1e4000", "2.5", "-1.5e200", "1e-320",
    "(1e308 + 1e308)", "(1e308 * 10 - 1e308 * 10)", "1e400 ^ 11",
]


def all_pool():
    return [(cls, v) for cls, vs in POOL.items() for v in vs]


def fn_names():
    from wikitextprocessor.parserfns import PARSER_FUNCTIONS

    return sorted(k for k in PARSER_FUNCTIONS if k not in EXCLUDE_FNS)


def render_call(fn, args, form):
    if form == 0 or not args:
        if not args:
            return "{{" + fn + ("}}" if form != 1 else ":}}")
        return "{{" + fn + ":" + "|".join(args) + "}}"
    if form == 1:
        return "{{" + fn + ":" + "|".join(args) + "}}"
    return "{{" + fn + "|" + "|".join(args) + "}}"


def name_variant(fn, v):
    if v == 1:
        return fn.lower()
    if v == 2:
        return fn.upper()
    if v == 3:
        return fn.replace(" ", "_") + " "
    return fn


def pfn_case(ctx, title, text, fn, bound=BOUND_S):
    ctx.start_page(title)
    status, val, el = guard.call(ctx.expand, bound, text)
    if status == "timeout":
        if len(text) > 300:
            # the stated bound is for inputs <= 300 characters; a slow long
            # input is inconclusive, never a violation
            return "inconclusive"
        return ({"kind": "timeout", "part": "pfn", "fn": fn},
                f"{text[:80]!r} still running after {bound}s")
    if status == "exc":
        b = exc_bucket(val)
        return ({"kind": "exception", "part": "pfn", "fn": fn,
                 "exc": b["exc"], "func": b["func"]}, exc_text(val))
    if not isinstance(val, str):
        return ({"kind": "not-str", "part": "pfn", "fn": fn}, repr(type(val)))
    return None


# ------------------------------------------------------------------ shards


def limit_memory():
    try:
        resource.setrlimit(resource.RLIMIT_AS, (6 << 30, 6 << 30))
    except (ValueError, OSError):
        pass


def record(part, known, buckets, sig, what, replay, size):
    for k in known:
        if sig_matches(k["signature"], sig):
            if not part.excluded[k["id"]]:
                part.violation(sig, what, replay)
            part.excluded[k["id"]] += 1
            return
    key = h(sig)
    cur = buckets.get(key)
    if cur is None or size < cur[3]:
        buckets[key] = (sig, what, replay, size)


def shard_graph(idx, nshards, seed, n_random, known, quick):
    env.setup()
    limit_memory()
    part = Part()
    buckets = {}

    def one(lib, page, origin):
        status, detail, text = graph_case(lib, page)
        if status == "ood":
            part.excluded["ood"] += 1
            part.evaluations += 1
            return
        cyc = has_cycle(lib)
        deep = text.count("{{") >= 10
        cls = ["graph:" + origin, "cyclic" if cyc else "acyclic"]
        if status == "ok-diverges":
            cls.append("reference-diverges")
        part.case(h([lib, page]), cyc or deep, classes=cls,
                  sample={"page": text[:200],
                          "templates": {k: exp.render(v["body"])[:120]
                                        for k, v in lib.items()}})
        if status == "viol":
            sig, what = detail
            if sig["kind"] == "blowup-predicted" and not any(
                    sig_matches(k["signature"], sig) for k in known):
                # not a listed finding: confirm against the real time bound
                status, detail, text = graph_case(lib, page, step_limit=None)
                if status != "viol":
                    return
                sig, what = detail
            record(part, known, buckets, sig, what,
                   {"part": "graph", "lib": lib, "page": page}, len(text)
                   + sum(len(exp.render(v["body"])) for v in lib.values()))

    fixed = small_graph_cases() + variant_graph_cases()
    if quick:
        # every 7th small graph + all variants in quick
        fixed = [c for i, c in enumerate(fixed) if i % 7 == 0 or i >= len(fixed) - 25]
    for i, (lib, page) in enumerate(fixed):
        if i % nshards == idx:
            one(lib, page, "enumerated")
    deep = [(400, "template"), (1000, "template"), (250, "pfn-arg"),
            (1000, "pfn-arg"), (1200, "pfn-name"), (600, "mixed")]
    for j, (d, kind) in enumerate(deep):
        if j % nshards == idx:
            v = very_deep_case(d, kind)
            part.case(h(("very-deep", d, kind)), True,
                      classes=["graph:very-deep-nesting:" + kind],
                      sample={"page": f"{kind} nesting {d}"})
            if v is not None:
                record(part, known, buckets, v[0], v[1],
                       {"part": "very-deep", "depth": d, "nest": kind}, d)

    for j, (sname, pg, text) in enumerate(redirect_cases()):
        if j % nshards == idx:
            v = redirect_case(sname, pg, text)
            part.case(h(("redirect", sname, text)), True,
                      classes=["graph:redirect-pages:" + sname],
                      sample={"page": text, "redirects": pg})
            if v is not None:
                record(part, known, buckets, v[0], v[1],
                       {"part": "redirect", "set": sname, "pages": pg,
                        "text": text}, len(text))
    nest = [(d, kind, mode) for kind in NEST_KINDS for mode in NEST_MODES
            for d in ((30, 90) if quick else (12, 30, 48, 64, 90, 100))]
    for j, (d, kind, mode) in enumerate(nest):
        if j % nshards == idx:
            v = nested_case(d, kind, mode)
            part.case(h(("nested", d, kind, mode)), True,
                      classes=["graph:nested-positions:" + kind + ":" + mode],
                      sample={"page": f"{kind} nesting {d} mode {mode}"})
            if v is not None:
                record(part, known, buckets, v[0], v[1],
                       {"part": "nested", "depth": d, "nest": kind,
                        "mode": mode}, d)

    # pumped inputs (C01's pump stage) through expand(): opener x 40
    # repetitions of a unit / unit pair; a step count doubling per repetition
    # overruns the bound on a 200-character input
    from checks import c01_parse_total as c01

    pctx = env.new_ctx()
    pctx.add_page("Template:tb", 10, "<{{{1|}}}>")
    pctx.start_page("Test page")
    try:
        for j, text in enumerate(c01.pump_cases(quick)):
            if j % nshards != idx:
                continue
            kw = {} if (j // nshards) % 2 == 0 else {"pre_expand": True}
            status, val, el = guard.call(pctx.expand, BOUND_S, text, **kw)
            part.case(h(("pump", text, sorted(kw))), True,
                      classes=["graph:pump"], sample={"page": text[:80]})
            v = None
            base = {"part": "graph", "class": "pump"}
            if status == "timeout":
                v = ({"kind": "timeout", **base},
                     f"expand({text[:60]!r}..., {kw}) still running after "
                     f"{BOUND_S}s")
                pctx.expand_stack = ["Test page"]
            elif status == "exc":
                v = ({"kind": "exception", **base, **exc_bucket(val)},
                     f"expand({text[:60]!r}...): {exc_text(val)}")
                pctx.expand_stack = ["Test page"]
            elif not isinstance(val, str):
                v = ({"kind": "not-str", **base}, repr(type(val)))
            if v is not None:
                record(part, known, buckets, v[0], v[1],
                       {"part": "pump", "text": text, "kw": kw}, len(text))
    finally:
        try:
            pctx.close_db_conn()
        except Exception:
            pass

    # the same idea inside parser-function arguments: opener + 40 x unit
    # (or unit pair) + "}}" - tokenizers and argument parsers of #expr, #time,
    # formatnum, the string functions ... on long monotonous input
    pctx = env.new_ctx()
    pctx.add_page("Template:tb", 10, "<{{{1|}}}>")
    pctx.start_page("Test page")
    try:
        for j, text in enumerate(pfn_pump_cases(quick)):
            if j % nshards != idx:
                continue
            status, val, el = guard.call(pctx.expand, BOUND_S, text)
            part.case(h(("pfn-pump", text)), True, classes=["graph:pfn-pump"],
                      sample={"page": text[:80]})
            v = None
            base = {"part": "graph", "class": "pfn-pump",
                    "fn": text.split(":")[0].strip("{")}
            if status == "timeout":
                v = ({"kind": "timeout", **base},
                     f"expand({text[:60]!r}...) still running after {BOUND_S}s")
            elif status == "exc":
                v = ({"kind": "exception", **base, **exc_bucket(val)},
                     f"expand({text[:60]!r}...): {exc_text(val)}")
            elif not isinstance(val, str):
                v = ({"kind": "not-str", **base}, repr(type(val)))
            if v is not None:
                pctx.expand_stack = ["Test page"]
                record(part, known, buckets, v[0], v[1],
                       {"part": "pump", "text": text, "kw": {}}, len(text))
    finally:
        try:
            pctx.close_db_conn()
        except Exception:
            pass

    def body(case):
        one(case[0], case[1], "random")

    hyp.search(exp.case_strategy(depth=4, n_max=5, dag=False), body, n_random,
               seed * 1000 + idx, shrink=False)
    for sig, what, replay, _ in buckets.values():
        part.violation(sig, what, replay)
    return part.to_dict()


def shard_pfn(idx, nshards, seed, n_random, known, quick):
    env.setup()
    limit_memory()
    part = Part()
    buckets = {}
    ctx = env.new_ctx()
    ctx.add_page("Template:tt", 10, "T{{{1|}}}")
    ctx.add_page("Foo", 0, "body")
    fns = fn_names()
    pool = all_pool()

    def one(title, fn, args, classes, form, origin):
        text = render_call(fn, args, form)
        canon = fn.strip().replace("_", " ")
        r = pfn_case(ctx, title, text, canon if canon in fns else canon.lower())
        nontriv = any(c not in HAPPY for c in classes) or title != "Test"
        part.case(h([title, text]), nontriv,
                  classes=["pfn:" + origin] + ["arg:" + c for c in set(classes)],
                  sample={"title": title, "text": text[:200]})
        if r == "inconclusive":
            part.excluded["slow-long-input"] += 1
        elif r is not None:
            record(part, known, buckets, r[0], r[1],
                   {"part": "pfn", "title": title, "text": text,
                    "fn": r[0]["fn"]}, len(text) + len(title))

    # exhaustive: every function x every single pool value x forms,
    # and every function with no argument under every title
    work = []
    for fn in fns:
        for t in TITLES:
            work.append((t, fn, [], [], 0))
            work.append((t, fn, [], [], 1))
        for cls, v in pool:
            work.append(("Test", fn, [v], [cls], 1))
            if fn.startswith("#"):
                work.append(("Test", fn, [v], [cls], 2))
            work.append(("Talk:Foo/bar", fn, [v, v], [cls], 1))
    # exhaustive: every #expr binary operator x every pair of extreme
    # operands, every unary operator x every extreme operand
    EXTREME = ["0", "1", "- 1", "0.5", "1e400", "- 1e400",
               "(1.5e200 * 1.5e200)", "1e-400", "99999999999999999999",
               "- 99999999999999999999", "4300", "(1e308 * 10 - 1e308 * 10)"]
    BIN = ["+", "-", "*", "/", "div", "mod", "^", "round", "e", "=", "!=",
           "<>", "<", ">", "<=", ">=", "and", "or"]
    UN = ["-", "+", "not", "ceil", "trunc", "floor", "abs", "sqrt", "exp",
          "ln", "sin", "cos", "tan", "acos", "asin", "atan"]
    for op in BIN:
        for a in EXTREME:
            for b in EXTREME:
                work.append(("Test", "#expr", [f"{a} {op} {b}"], ["expr-extreme"], 1))
    for op in UN:
        for a in EXTREME:
            work.append(("Test", "#expr", [f"{op} {a}"], ["expr-extreme"], 1))
            work.append(("Test", "#ifexpr", [f"{op} {a}", "y", "n"],
                         ["expr-extreme"], 1))
    for i, (t, fn, args, classes, form) in enumerate(work):
        if i % nshards != idx:
            continue
        if quick and i % 3 != seed % 3 and args:
            continue
        one(t, fn, args, classes, form, "enumerated")

    poolst = st.sampled_from(pool)
    vec = st.tuples(
        st.sampled_from(TITLES), st.sampled_from(fns), st.integers(0, 3),
        st.lists(poolst, max_size=5), st.integers(0, 2),
    )

    def body(case):
        title, fn, nv, items, form = case
        one(title, name_variant(fn, nv), [v for _, v in items],
            [c for c, _ in items], form, "random")

    hyp.search(vec, body, n_random, seed * 1000 + idx, shrink=False)

    # #expr / #ifexpr operator soup
    soup = st.tuples(st.sampled_from(["#expr", "#ifexpr", "plural"]),
                     st.lists(st.sampled_from(EXPR_TOKENS), min_size=1,
                              max_size=12))

    def body2(case):
        fn, toks = case
        one("Test", fn, [" ".join(toks), "a", "b"], ["op"], 1, "expr-soup")

    hyp.search(soup, body2, n_random, seed * 1000 + 500 + idx, shrink=False)
    try:
        ctx.close_db_conn()
    except Exception:
        pass
    for sig, what, replay, _ in buckets.values():
        part.violation(sig, what, replay)
    return part.to_dict()


def run(run):
    quick = run.tier == "quick"
    procs = par.nprocs(run.tier)
    ns = procs
    n_graph, n_pfn = (150, 600) if quick else (6000, 40000)
    jobs = [(shard_graph, (i, ns, run.seed, n_graph, run.known, quick))
            for i in range(ns)]
    jobs += [(shard_pfn, (i, ns, run.seed, n_pfn, run.known, quick))
             for i in range(ns)]
    res = par.map_shards(_dispatch, jobs, procs)
    for d in res:
        run.merge(d)
    run.exhaustive = not quick
    run.rule = (
        "(a) all call graphs on <=3 templates (exhaustive in thorough, every "
        "7th in quick) + cycles through arguments / defaults / #if / #switch "
        "+ literal nesting to depth 150 and, as text, to 400 and 1000 + "
        "Hypothesis-generated libraries with "
        "arbitrary (cyclic) call graphs on <=5 templates; oracle: returns str "
        "within 20 s without exception; if the pure reference semantics "
        "diverges the output must carry an error element and a recorded "
        "warning/error, otherwise an error-free output must equal the "
        "reference value. (b) every key of PARSER_FUNCTIONS (minus the two "
        "network functions) x every pool value x call forms x page titles "
        "(enumerated) + every #expr binary operator x every pair of 12 extreme "
        "operands and every unary operator x every extreme operand "
        "(enumerated) + Hypothesis argument vectors of length 0-5 + operator "
        "soups for #expr/#ifexpr/plural; oracle: returns str, no exception, "
        "within 20 s. Non-trivial: (a) cyclic library or >=10 nested calls; "
        "(b) an argument outside the happy path or a non-default page title. "
        "Distinct by hash of the case. Failures are bucketed by "
        "(kind, function, exception type) and the smallest input per bucket "
        "is reported."
    )
    run.assumptions = [
        "#property and #statements need the network by design and are "
        "excluded by construction",
        "20 s bound for inputs <= 300 characters (typical case < 5 ms)",
    ]


def _dispatch(fn, args):
    return fn(*args)


def replay(run, case):
    limit_memory()
    if case["part"] == "graph":
        status, detail, text = graph_case(case["lib"], case["page"])
        run.case(h([case["lib"], case["page"]]), True, sample={"page": text[:200]})
        if status == "viol":
            run.violation(detail[0], detail[1], case)
    elif case["part"] == "redirect":
        v = redirect_case(case["set"], case["pages"], case["text"])
        run.case(h(("redirect", case["set"], case["text"])), True,
                 sample={"page": case["text"]})
        if v is not None:
            run.violation(v[0], v[1], case)
    elif case["part"] == "pump":
        ctx = env.new_ctx()
        ctx.add_page("Template:tb", 10, "<{{{1|}}}>")
        ctx.start_page("Test page")
        status, val, el = guard.call(ctx.expand, BOUND_S, case["text"],
                                     **case["kw"])
        run.case(h(("pump", case["text"])), True,
                 sample={"page": case["text"][:80]})
        if status != "ok" or not isinstance(val, str):
            run.violation({"kind": "timeout" if status == "timeout" else
                           "exception", "part": "graph", "class": "pump"},
                          f"expand({case['text'][:60]!r}...) {status}", case)
        ctx.close_db_conn()
    elif case["part"] == "nested":
        v = nested_case(case["depth"], case["nest"], case["mode"])
        run.case(h(("nested", case["depth"], case["nest"], case["mode"])), True,
                 sample={"depth": case["depth"]})
        if v is not None:
            run.violation(v[0], v[1], case)
    elif case["part"] == "very-deep":
        v = very_deep_case(case["depth"], case.get("nest", "template"))
        run.case(h(("very-deep", case["depth"])), True,
                 sample={"depth": case["depth"]})
        if v is not None:
            run.violation(v[0], v[1], case)
    else:
        ctx = env.new_ctx()
        ctx.add_page("Template:tt", 10, "T{{{1|}}}")
        ctx.add_page("Foo", 0, "body")
        r = pfn_case(ctx, case["title"], case["text"], case["fn"])
        run.case(h([case["title"], case["text"]]), True,
                 sample={"title": case["title"], "text": case["text"][:200]})
        if r is not None and r != "inconclusive":
            run.violation(r[0], r[1], case)
        try:
            ctx.close_db_conn()
        except Exception:
            pass
