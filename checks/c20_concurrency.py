"""C20 — concurrent worker contexts on one database agree and do not disturb
it.  Mode A: harness-owned schedules (workers gated at every line event of the
start-up functions); mode B: free-running stress with seeded start offsets."""

import os
import pickle
import select
import shutil
import signal
import sqlite3
import sys
import tempfile
import time

from hypothesis import strategies as st

from fixtures import lua_modules
from vlib import env, hyp, par
from vlib.run import Part, h, sig_matches

GATED = {
    "core.py": {"create_db", "add_page", "backup_db_path"},
    "wikidata.py": {"init_wikidata_cache"},
    "luaexec.py": {"add_empty_sandbox_lua_module"},
}
STALL_S = 0.3
HOLD_S = 7.0      # > SQLite's default 5 s busy timeout
OVERALL_S = 90.0

TEMPLATES = {"ta": "A[{{{1|}}}]", "tb": "{{ta|{{{1|b}}}}}/{{#invoke:echo|f|{{{1|}}}}}"}
PAGES = [
    ("P one", "{{ta|x}} {{#invoke:echo|f|one}}"),
    ("P two", "{{tb|y}} [[l]] {{#if:a|b|c}}"),
    ("P three", "{{#invoke:echo|dump|a|k=v}} {{tb}}"),
    ("P four", "plain ''text'' {{nope}} {{#invoke:bad|err}}"),
    ("P five", "{{#invoke:echo|pp|{{ta|q}}}} {{#expr:1+2}}"),
    # two pages whose module hands a word to a require()d helper through a
    # global of the invocation's environment: a worker must not answer one
    # page with what an earlier page of its own order left behind
    ("P six", "{{#invoke:gmod|f|six}}"),
    ("P seven", "{{#invoke:gmod|f|seven}} {{#invoke:gmod|f|again}}"),
]
GMOD = """
local p = {}
function p.f(frame)
  word = frame.args[1]
  return require("Module:ghelp").say()
end
return p
"""
GHELP = """
local m = {}
function m.say()
  count = (count or 0) + 1
  return "say:" .. tostring(word) .. ":" .. tostring(count)
end
return m
"""


def prepare_db(d, backup_present, phase1_present, stale_wal=False):
    """The database as a parent process leaves it (committed, closed); with
    stale_wal the process that wrote after the backup died without closing,
    so its committed frames are still in <db>-wal."""
    if stale_wal:
        pid = os.fork()
        if pid == 0:
            try:
                _prepare(d, backup_present, phase1_present, False)
            finally:
                os._exit(0)
        os.waitpid(pid, 0)
        return os.path.join(d, "pages.db")
    return _prepare(d, backup_present, phase1_present, True)


def start_holder(d, backup_present, phase1_present):
    """The populating process keeps its context open while the workers run
    (a parent that filled the database and then started a worker pool): all
    pages are committed, but still only in the write-ahead log.  Returns
    (pid, pipe to close when the holder should die)."""
    r, w = os.pipe()
    rr, ww = os.pipe()
    pid = os.fork()
    if pid == 0:
        try:
            os.close(w)
            os.close(rr)
            _prepare(d, backup_present, phase1_present, False)
            os.write(ww, b"r")
            os.read(r, 1)       # parent closes its end when the case is over
        finally:
            os._exit(0)
    os.close(r)
    os.close(ww)
    os.read(rr, 1)
    os.close(rr)
    return pid, w


def _prepare(d, backup_present, phase1_present, close):
    env.setup()
    db = os.path.join(d, "pages.db")
    ctx = env.new_ctx(db_path=db)
    lua_modules.install(ctx)
    for k, v in TEMPLATES.items():
        ctx.add_page("Template:" + k, 10, v)
    for t, body in PAGES:
        ctx.add_page(t, 0, body)
    ctx.add_page("Module:gmod", 828, GMOD, model="Scribunto")
    ctx.add_page("Module:ghelp", 828, GHELP, model="Scribunto")
    if phase1_present:
        ctx.add_page("Module:_sandbox_phase1", 828, "", model="Scribunto")
    ctx.db_conn.commit()
    if backup_present:
        # as left behind by an earlier override run: the backup holds the
        # content described above, the live file a later version
        ctx.backup_db()
        ctx.add_page("P one", 0, "OVERWRITTEN AFTER BACKUP")
        ctx.add_page("Template:ta", 10, "OVERWRITTEN[{{{1|}}}]")
        ctx.db_conn.commit()
    if close:
        ctx.db_conn.close()
    return db


def rows(db):
    con = sqlite3.connect(db)
    try:
        return sorted(con.execute(
            "SELECT title, namespace_id, redirect_to, need_pre_expand, body, "
            "model FROM pages"))
    finally:
        con.close()


def work(db, order, pause=None):
    """What every worker does; returns per-page results.  pause() is a
    harness-level gate between pages (the worker is outside package code
    there, as a pool worker waiting for its next page is)."""
    from wikitextprocessor import Wtp

    ctx = Wtp(db_path=db, quiet=True, quiet_output=True)
    out = {}
    for i in order:
        if pause:
            pause()
        title, text = PAGES[i]
        ctx.start_page(title)
        out[title] = ctx.expand(text)
        root = ctx.parse(text, pre_expand=True)
        out[title + "#n"] = len(root.children)
    if pause:
        pause()
    out["exists"] = ctx.page_exists("Template:ta", 10)
    out["body"] = ctx.get_page_body("Template:tb", 10)
    out["p-one"] = ctx.get_page_body("P one", 0)
    ctx.close_db_conn()
    return out


def reference(d_args):
    backup_present, phase1_present = d_args[0], d_args[1]
    stale = len(d_args) > 2 and d_args[2]
    d = tempfile.mkdtemp(prefix="verif-c20-")
    try:
        db = prepare_db(d, backup_present, phase1_present, stale)
        return work(db, list(range(len(PAGES))))
    finally:
        shutil.rmtree(d, ignore_errors=True)


class Gate:
    def __init__(self, ev_w, grant_r):
        self.ev_w = ev_w
        self.grant_r = grant_r
        self.on = True
        self.count = 0

    def local(self, frame, event, arg):
        if event == "line" and self.on:
            self.count += 1
            os.write(self.ev_w, b"G")
            os.read(self.grant_r, 1)
        return self.local

    def glob(self, frame, event, arg):
        if event != "call":
            return None
        co = frame.f_code
        names = GATED.get(os.path.basename(co.co_filename))
        if names and co.co_name in names and \
                "wikitextprocessor" in co.co_filename:
            return self.local
        return None


def spawn(idx, db, order, gated, start_r=None, offset_ms=0):
    ev_r, ev_w = os.pipe()
    gr_r, gr_w = os.pipe()
    rs_r, rs_w = os.pipe()
    pid = os.fork()
    if pid == 0:
        try:
            os.close(ev_r)
            os.close(gr_w)
            os.close(rs_r)
            env.setup()
            if start_r is not None:
                os.read(start_r, 1)          # barrier
                time.sleep(offset_ms / 1000.0)
            t_start = time.time()
            g = Gate(ev_w, gr_r)
            try:
                def pause():
                    os.write(ev_w, b"P")
                    os.read(gr_r, 1)

                if gated:
                    sys.settrace(g.glob)
                res = ("ok", work(db, order, pause if gated else None),
                       g.count, t_start, time.time())
            except BaseException as e:
                import traceback

                res = ("exc", f"{type(e).__name__}: {e}",
                       traceback.format_exc()[-600:], t_start, time.time())
            finally:
                sys.settrace(None)
                g.on = False
            with os.fdopen(rs_w, "wb") as f:
                f.write(pickle.dumps(res))
            os.write(ev_w, b"D")
        finally:
            os._exit(0)
    os.close(ev_w)
    os.close(gr_r)
    os.close(rs_w)
    return {"pid": pid, "ev": ev_r, "grant": gr_w, "res": rs_r,
            "state": "running", "gates": 0}


def wait_event(w, timeout):
    """Waits for the worker's next gate arrival or completion."""
    r, _, _ = select.select([w["ev"]], [], [], timeout)
    if not r:
        return None
    b = os.read(w["ev"], 1)
    if b == b"G":
        w["state"] = "gate"
        w["safe"] = False
        w["gates"] += 1
    elif b == b"P":
        # between pages: outside package code, may be held arbitrarily long
        w["state"] = "gate"
        w["safe"] = True
        w["pgates"] = w.get("pgates", 0) + 1
    elif b == b"D" or b == b"":
        w["state"] = "done"
    return w["state"]


def collect(w):
    data = b""
    while True:
        r, _, _ = select.select([w["res"]], [], [], 5)
        if not r:
            break
        b = os.read(w["res"], 1 << 16)
        if not b:
            break
        data += b
    try:
        os.waitpid(w["pid"], 0)
    except ChildProcessError:
        pass
    for k in ("ev", "grant", "res"):
        try:
            os.close(w[k])
        except OSError:
            pass
    if not data:
        return ("died", "no result", "")
    return pickle.loads(data)


def run_schedule(db, schedule, n, orders):
    """Mode A.  Returns (worker results, context switches, inconclusive)."""
    ws = [spawn(i, db, orders[i], True) for i in range(n)]
    t0 = time.time()
    switches = 0
    last = None
    inconclusive = False
    for w in ws:
        wait_event(w, 10.0)

    def others_parked_safely(i):
        """True when every other live worker waits at a between-pages gate:
        holding them there is a legitimate schedule (an idle pool worker), so
        the harness may wait for worker i as long as SQLite's own busy
        timeout without manufacturing a lock error."""
        return all(o["state"] == "done" or (o["state"] == "gate"
                                            and o.get("safe"))
                   for j, o in enumerate(ws) if j != i)

    def step(i):
        nonlocal switches, last
        w = ws[i]
        if w["state"] == "running":
            wait_event(w, HOLD_S if others_parked_safely(i) else 0)
        if w["state"] != "gate":
            return False
        if last is not None and last != i:
            switches += 1
        last = i
        w["state"] = "running"
        os.write(w["grant"], b"g")
        if wait_event(w, STALL_S) is None and others_parked_safely(i):
            wait_event(w, HOLD_S)
        return True

    for i in schedule:
        if time.time() - t0 > OVERALL_S:
            inconclusive = True
            break
        step(i % n)
    # drain: round-robin until all are done
    while not all(w["state"] == "done" for w in ws):
        if time.time() - t0 > OVERALL_S:
            inconclusive = True
            break
        progressed = False
        for i in range(n):
            if ws[i]["state"] != "done" and step(i):
                progressed = True
        if not progressed:
            for w in ws:
                if w["state"] == "running":
                    wait_event(w, 0.05)
    if inconclusive:
        for w in ws:
            try:
                os.kill(w["pid"], signal.SIGKILL)
            except ProcessLookupError:
                pass
    res = [collect(w) for w in ws]
    return res, switches, inconclusive, [w["gates"] for w in ws]


def run_stress(db, n, offsets, orders):
    """Mode B: barrier start with seeded offsets, workers run freely."""
    sr, sw = os.pipe()
    ws = [spawn(i, db, orders[i], False, start_r=sr, offset_ms=offsets[i])
          for i in range(n)]
    time.sleep(0.05)
    os.write(sw, b"s" * n)
    t0 = time.time()
    for w in ws:
        while w["state"] != "done" and time.time() - t0 < OVERALL_S:
            wait_event(w, 1.0)
    inconclusive = any(w["state"] != "done" for w in ws)
    if inconclusive:
        for w in ws:
            try:
                os.kill(w["pid"], signal.SIGKILL)
            except ProcessLookupError:
                pass
    res = [collect(w) for w in ws]
    os.close(sr)
    os.close(sw)
    return res, inconclusive


def judge(res, ref, before, after, variant, mode):
    base = {"mode": mode, "backup_present": variant[0],
            "phase1_present": variant[1],
            "stale_wal": len(variant) > 2 and variant[2],
            "holder_open": len(variant) > 3 and variant[3]}
    out = []
    for i, r in enumerate(res):
        if r[0] == "exc":
            cls = r[1].split(":")[0]
            out.append((dict(base, kind="worker-exception", exc=cls),
                        f"worker {i} raised {r[1][:200]}"))
        elif r[0] == "died":
            out.append((dict(base, kind="worker-died"),
                        f"worker {i} died without a result"))
        elif r[0] == "ok":
            got = r[1]
            for k, v in got.items():
                if ref.get(k) != v:
                    out.append((dict(base, kind="result-differs"),
                                f"worker {i}: {k!r} = {str(v)[:120]!r}, single "
                                f"process gives {str(ref.get(k))[:120]!r}"))
                    break
    allowed_extra = ("Module:_sandbox_phase1", 828)
    b = {(r[0], r[1]): r for r in before}
    a = {(r[0], r[1]): r for r in after}
    for k, r in b.items():
        if a.get(k) != r:
            out.append((dict(base, kind="stored-page-changed"),
                        f"stored row {k!r} changed or vanished: "
                        f"{str(a.get(k))[:120]}"))
            break
    for k in a:
        if k not in b and k != allowed_extra:
            out.append((dict(base, kind="stored-page-added"),
                        f"unexpected new row {k!r}"))
    return out


def one_case(args):
    mode, variant, n, payload, seed = args
    env.setup()
    d = tempfile.mkdtemp(prefix="verif-c20-")
    try:
        holder = None
        if len(variant) > 3 and variant[3]:
            holder = start_holder(d, variant[0], variant[1])
            db = os.path.join(d, "pages.db")
        else:
            db = prepare_db(d, *variant[:3])
        # the content every worker must see: with a backup present the
        # restored (backup) content
        before = rows(os.path.join(d, "pages_backup.db")) if variant[0] \
            else rows(db)
        status, ref, _ = par.fork_child(reference, (tuple(variant[:3]),),
                                        timeout=120)
        if status != "ok":
            return {"harness": f"reference failed: {status} {ref!r}"}
        import random

        rnd = random.Random(seed)
        orders = []
        for i in range(n):
            o = list(range(len(PAGES)))
            rnd.shuffle(o)
            orders.append(o)
        if mode == "A":
            res, switches, inconc, gates = run_schedule(db, payload, n, orders)
            overlap = switches >= 2
        else:
            res, inconc = run_stress(db, n, payload, orders)
            spans = [(r[-2], r[-1]) for r in res if r[0] in ("ok", "exc")]
            overlap = sum(1 for i, s in enumerate(spans)
                          for t in spans[i + 1:]
                          if s[0] < t[1] and t[0] < s[1]) >= 1
            switches, gates = 0, []
        if holder is not None:
            os.close(holder[1])
            try:
                os.waitpid(holder[0], 0)
            except ChildProcessError:
                pass
        after = rows(db) if os.path.exists(db) else []
        viols = [] if inconc else judge(res, ref, before, after, variant, mode)
        return {"viols": viols, "inconclusive": inconc, "overlap": overlap,
                "switches": switches, "gates": gates}
    finally:
        shutil.rmtree(d, ignore_errors=True)


def hold_schedules(total_gates):
    """Worker 0 is parked between pages (context open, after k pages) while
    worker 1 does everything, and the mirror image."""
    out = []
    for k in (1, 2, 4):
        head = total_gates + k + 2
        out.append([0] * head + [1] * (total_gates + 40))
        out.append([1] * head + [0] * (total_gates + 40))
    return out


def late_start_schedules(total_gates):
    """Three workers: one runs to its end (and closes) while a second is
    parked between pages with its context open, then a third only starts;
    every choice of who is parked after how many pages."""
    full = total_gates + 40
    out = []
    for k in (1, 3):
        head = total_gates + k + 2
        out.append([1] * head + [0] * full + [2] * full + [1] * full)
        out.append([2] * head + [1] * full + [0] * full + [2] * full)
    out.append([0] * full + [1] * full + [2] * full)   # strictly one by one
    return out


def preemption_schedules(total_gates, n=2):
    """Every single preemption point: worker 0 runs k gates, worker 1 runs to
    the end, worker 0 finishes; and the mirror image."""
    out = []
    for k in range(0, total_gates + 1):
        out.append([0] * k + [1] * (total_gates + 5))
        out.append([1] * k + [0] * (total_gates + 5))
    return out


def run(run):
    env.setup()
    quick = run.tier == "quick"
    procs = max(2, par.nprocs(run.tier) // 2)
    import random

    rnd = random.Random(run.seed)
    # how many gates does one start-up have?  (dry run, one worker)
    d = tempfile.mkdtemp(prefix="verif-c20-")
    try:
        db = prepare_db(d, False, False)
        res, _, _, gates = run_schedule(db, [0] * 400, 1, [[0, 1, 2, 3, 4]])
        total = gates[0]
    finally:
        shutil.rmtree(d, ignore_errors=True)
    run.extra["gates_per_worker_start_up"] = total
    jobs = []
    variants = [(False, False), (False, True), (True, False), (True, True),
                (True, False, True), (True, True, True),
                (False, False, False, True), (False, True, False, True)]
    pre = preemption_schedules(total)
    for v in variants:
        sel = pre if not quick else pre[::max(1, len(pre) // 10)]
        if v[0] and quick:
            # with a backup file the restore in create_db is the critical
            # section: every preemption point of the first 30 gates
            sel = pre[:60] if len(v) > 2 else pre[:60:3]
        for s in sel + (hold_schedules(total) if not v[0] else []):
            jobs.append(("A", v, 2, s, rnd.randint(0, 10 ** 6)))
        if not v[0]:
            for s in late_start_schedules(total):
                jobs.append(("A", v, 3, s, rnd.randint(0, 10 ** 6)))
        nrand = (6 if quick else 150)
        for _ in range(nrand):
            n = 2 if quick or rnd.random() < 0.5 else 3
            s = [rnd.randint(0, n - 1) for _ in range(rnd.randint(5, 2 * total))]
            jobs.append(("A", v, n, s, rnd.randint(0, 10 ** 6)))
    rounds = 8 if quick else 120
    for r_ in range(rounds):
        v = [variants[0], variants[1], variants[6], variants[7]][r_ % 4]
        # (stress runs without a backup file)
        n = rnd.choice([2, 4, 8] if quick else [2, 3, 4, 8, 16])
        offs = [rnd.randint(0, 20) for _ in range(n)]
        jobs.append(("B", v, n, offs, rnd.randint(0, 10 ** 6)))
    res = par.map_shards(one_case, [(j,) for j in jobs], procs)
    for job, r in zip(jobs, res):
        mode, v, n, payload, seed = job
        if "harness" in r:
            raise RuntimeError(r["harness"])
        if r["inconclusive"]:
            run.inconclusive = True
            run.classes["inconclusive(watchdog)"] += 1
            continue
        run.case(h((mode, v, n, payload)), bool(r["overlap"]),
                 classes=["mode:" + mode, "workers:%d" % n,
                          "backup:%s" % v[0], "phase1:%s" % v[1]]
                 + (["overlapping"] if r["overlap"] else []),
                 sample={"mode": mode, "workers": n, "backup_present": v[0],
                         "phase1_present": v[1],
                         "stale_wal": len(v) > 2 and v[2],
                         "holder_open": len(v) > 3 and v[3],
                         "schedule_or_offsets": payload[:40],
                         "context_switches": r["switches"]})
        for sig, what in r["viols"]:
            run.violation(sig, what, {"mode": mode, "variant": list(v),
                                      "n": n, "payload": payload,
                                      "seed": seed})
    run.rule = (
        "A database prepared and closed by a parent (templates, Lua modules, "
        "5 pages; variants: backup file present / absent - and with a backup, "
        "the write-ahead log of the superseded database left behind by a "
        "writer that died, or not -, Module:_sandbox_phase1 present / "
        "absent, and the populating process still holding its context open "
        "(all pages committed but only in the write-ahead log) or gone). "
        "Three-worker late-start schedules let one worker finish and close "
        "while a second is parked with its context open before a third "
        "starts. Mode A: 2-3 workers each "
        "construct Wtp(db_path) and process the pages in a seeded order under "
        "a line tracer restricted to create_db, init_wikidata_cache, "
        "add_empty_sandbox_lua_module, add_page, backup_db_path; at every "
        "line event the worker waits for the harness scheduler. Schedules: "
        f"every single preemption point of the {total}-gate start-up in both "
        "orders (thorough; quick: every 10th) and seeded random schedules; a "
        "worker that does not reach its next gate within 0.3 s is treated as "
        "blocked in SQLite and another worker is scheduled; workers also stop "
        "at harness-level gates between pages, where a schedule may hold them "
        "(context open) for as long as SQLite's busy timeout while another "
        "worker starts up. Mode B: 2-16 "
        "free-running workers released by a barrier with seeded 0-20 ms "
        "offsets. Oracle: no worker raises, every worker's per-page "
        "expansions, parse sizes and lookups equal a single process's, and "
        "all pre-existing rows of pages are byte-identical afterwards (an "
        "added empty Module:_sandbox_phase1 is allowed). A harness watchdog "
        "expiry is inconclusive, never a violation. Non-trivial: mode A "
        "schedule with >= 2 context switches inside the traced functions; "
        "mode B round with overlapping worker life spans."
    )
    run.assumptions = [
        "mode B is timing dependent: what it finds is real, finding nothing "
        "is weak evidence",
        "what happens inside SQLite's C code is reached only through the "
        "0.3 s stall rule and mode B",
    ]
    run.trusted_base = ["sys.settrace line events", "pipes / select",
                        "fixtures/lua/* stand-ins"]


def replay(run, case):
    r = one_case((case["mode"], tuple(case["variant"]), case["n"],
                  case["payload"], case["seed"]))
    run.case(h((case["mode"], case["payload"])), True,
             sample={"mode": case["mode"], "workers": case["n"]})
    if r.get("inconclusive"):
        run.inconclusive = True
        return
    for sig, what in r.get("viols", []):
        run.violation(sig, what, case)
