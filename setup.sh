#!/bin/sh
# Offline, idempotent: installs hypothesis (+ atheris) beside the repository's
# packages into /verif/.deps from the local wheelhouse.
set -e
cd "$(dirname "$0")"
export PIP_NO_INDEX=1
if [ ! -d .deps/hypothesis ]; then
  /venv/bin/pip install --quiet --no-index --find-links /opt/veriftools/wheels \
      --target .deps hypothesis sortedcontainers attrs || \
  /venv/bin/python -c "import hypothesis"   # fall back to /venv's copy
fi
if [ ! -d .deps/atheris ]; then
  /venv/bin/pip install --quiet --no-index --find-links /opt/veriftools/wheels \
      --target .deps atheris || echo "atheris not installed (optional)"
fi
/venv/bin/python -c "import sys; sys.path.insert(0,'.deps'); import hypothesis; print('hypothesis', hypothesis.__version__)"
